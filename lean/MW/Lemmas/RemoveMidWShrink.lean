/-
  C08, reorganisations BELOW the floor between two removal steps: the relaxed in-progress invariant `MidCW` of the real
  store for the chain WITHOUT its tip block, the tip possibly AT the ghost height (which then drops to `k'`); the
  ghost/real relation is the relaxed `SubW`, the frames are the one-store frames `RbFrame` (mirror of `midC_shrink`).
-/
import MW.Lemmas.RemoveInterleave5
import MW.Lemmas.RemoveSimWFrame
import MW.Lemmas.RemoveMidWDefs
namespace MW.Lemmas.RemoveInterleave
open MW MW.Model.Ledger MW.Model.Remove MW.Spec.Chain MW.Spec.Books MW.Lemmas.Ledger MW.Lemmas.RemoveProj
  MW.Lemmas.RemoveInv MW.Lemmas.RemoveMain MW.Lemmas.RemoveUpper MW.Lemmas.RemoveJoin MW.Lemmas.RemoveGlue
  MW.Lemmas.RemoveFlagged MW.Lemmas.ImportReorg MW.Lemmas.ImportJoin MW.Lemmas.RemoveChar MW.Lemmas.RemoveStep
  MW.Lemmas.RemoveBooks MW.Lemmas.RemoveSim MW.Lemmas.RemoveSimW

set_option linter.unusedVariables false in
/-- **`MidCW` for the chain without its tip block**, the tip possibly at the ghost height (`hSub`, the relation
    before the step, is kept in the statement for the callers' convenience; the proof does not need it) -/
theorem midUW_shrink {c : Ctx} {w : Wid} {addrs : List Addr} {own' : Own} {Y : List Block} {b : Block} {k k' : Nat}
    {g g' s s' : Store}
    (H : RemHyp c w addrs own' (Y ++ [b])) (HY : RemHyp c w addrs own' Y) (hKN : KeysNodup c.own)
    (hk : k + 1 ≤ (Y ++ [b]).length) (hk' : k' + 1 ≤ Y.length) (hbh : b.height = Y.length)
    (hS : ScanJS c w g (Y ++ [b]) k) (hS' : ScanJS c w g' Y k')
    (hnr' : (readyWallets g' c.wallets).contains w = false) (hng' : KeysNodup g'.credits)
    (hM : MidCW c w addrs own' s (Y ++ [b]) (joinBookK c w own' (Y ++ [b]) k))
    (hSub : SubW w addrs g s) (hSub' : SubW w addrs g' s') (hns' : KeysNodup s'.credits)
    (fs : RbFrame b.height s s') (fg : RbFrame b.height g g')
    (fsb : ∀ h', h' ≠ b.height → AMap.get s'.blocks h' = AMap.get s.blocks h')
    (fsb0 : AMap.get s'.blocks b.height = none) :
    MidCW c w addrs own' s' Y (joinBookK c w own' Y k') := by
  have hA := ghost_agree H hKN hS
  have hA' := ghost_agree HY hKN hS'
  have HU := upperOK_join (k := k) H hKN hk
  have HUY := upperOK_join (k := k') HY hKN hk'
  have hMg' : MidU c w addrs own' { g' with pendCred := [] } Y (joinBookK c w own' Y k') :=
    scanJS_to_midU HY hKN hk'
      (scanJS_congr hS' (s' := { g' with pendCred := [] }) ⟨rfl, rfl, rfl, rfl, rfl, rfl, rfl, rfl, rfl, rfl, rfl⟩)
      hnr' hng' (fun _ he => by cases he)
  have gC : ∀ ck, AMap.get g.credits ck = (joinBookK c w own' (Y ++ [b]) k).credits ck := fun ck => hA.credits ck
  have gD : ∀ dk, AMap.get g.debits dk = (joinBookK c w own' (Y ++ [b]) k).debits dk := fun dk => hA.debits dk
  have gC' : ∀ ck, AMap.get g'.credits ck = (joinBookK c w own' Y k').credits ck := fun ck => hA'.credits ck
  have gD' : ∀ dk, AMap.get g'.debits dk = (joinBookK c w own' Y k').debits dk := fun dk => hA'.debits dk
  have gT' : ∀ key, AMap.get g'.txrecs key = (joinBookK c w own' Y k').txrecs key := fun key => hA'.txrecs key
  have hMX : MidUW c w addrs own' { s with pendCred := [] } (Y ++ [b]) (joinBookK c w own' (Y ++ [b]) k) := hM
  have occ_lt : ∀ {oc : Occ}, oc ∈ occs Y → oc.bm.height < b.height := by
    intro oc hoc
    have := occ_height_lt HY.heights hoc
    omega
  have occ_low : ∀ {oc : Occ}, oc ∈ occs Y → oc.bm.height ≠ b.height := by
    intro oc hoc e
    have := occ_lt hoc
    omega
  refine ⟨hns', ?_, ?_, ?_, ?_, ?_, ?_, ?_, ?_, ?_, ?_, ?_, fun _ he => by cases he⟩
  · -- credits
    intro ck
    show AMap.get s'.credits ck = _ ∨ (AMap.get s'.credits ck = none ∧ _)
    rcases hSub'.credits ck with h | ⟨h1, cr, h2, h3⟩
    · exact Or.inl (h.trans (gC' ck))
    · exact Or.inr ⟨h1, cr, (gC' ck).symm.trans h2, by rw [← H.managed]; exact h3⟩
  · -- debits
    intro dk
    show AMap.get s'.debits dk = _ ∨ (AMap.get s'.debits dk = none ∧ _)
    rcases hSub'.debits dk with h | h1
    · exact Or.inl (h.trans (gD' dk))
    · cases hU : (joinBookK c w own' Y k').debits dk with
      | none => exact Or.inl h1
      | some d =>
        obtain ⟨cr, hcr, _⟩ := HUY.debitCredit dk d hU
        have hg'd : AMap.get g'.debits dk = some d := (gD' dk).trans hU
        have hg'c : AMap.get g'.credits d.2 = some cr := (gC' d.2).trans hcr
        have hsc : AMap.get s'.credits d.2 = none := hSub'.debGone dk d hg'd h1
        rcases hSub'.credits d.2 with h | ⟨_, cr', h2, h3⟩
        · rw [hsc, hg'c] at h; cases h
        · rw [hg'c] at h2
          injection h2 with h2
          subst h2
          exact Or.inr ⟨h1, d, cr, rfl, hcr, by rw [← H.managed]; exact h3⟩
  · -- debitsW
    intro dk d cr hd hc hw
    show AMap.get s'.credits d.2 = some cr
    have hd : AMap.get s'.debits dk = some d := hd
    have hg'd : AMap.get g'.debits dk = some d := by
      rcases hSub'.debits dk with h | h
      · rw [← h]; exact hd
      · rw [hd] at h; cases h
    have hUYd : (joinBookK c w own' Y k').debits dk = some d := (gD' dk).symm.trans hg'd
    obtain ⟨cr0, hcr0, hsp0⟩ := HUY.debitCredit dk d hUYd
    have e : cr0 = cr := by
      rw [hc] at hcr0
      injection hcr0 with h
      exact h.symm
    have hsp : spKey cr = some dk := by rw [← e]; exact hsp0
    obtain ⟨_, oc, hoc, _, hbm⟩ := HUY.spKeyDebit d.2 dk cr hc hsp
    have hdkh : dk.blk.height ≠ b.height := by rw [← hbm]; exact occ_low hoc
    obtain ⟨oc2, hoc2, _, hbm2⟩ := HUY.creditOcc d.2 cr hc
    have hckh : d.2.blk.height ≠ b.height := by rw [← hbm2]; exact occ_low hoc2
    have hsd : AMap.get s.debits dk = some d := by rw [← fs.debits dk hdkh]; exact hd
    have hg'c : AMap.get g'.credits d.2 = some cr := (gC' d.2).trans hc
    obtain ⟨cr1, hgc1, hsh⟩ := fg.credSh d.2 cr hg'c
    have hUc : (joinBookK c w own' (Y ++ [b]) k).credits d.2 = some cr1 := (gC d.2).symm.trans hgc1
    have hw1 : isW c.own w cr1.sh = true := by rw [hsh]; exact hw
    have hsc : AMap.get s.credits d.2 = some cr1 := hMX.debitsW dk d cr1 hsd hUc hw1
    have hsome : ∃ x, AMap.get s'.credits d.2 = some x := by
      rcases fs.credits d.2 hckh with h | ⟨cr2, _, h2, _⟩
      · exact ⟨cr1, h.trans hsc⟩
      · exact ⟨_, h2⟩
    obtain ⟨x, hx⟩ := hsome
    rcases hSub'.credits d.2 with h | ⟨h, _⟩
    · exact h.trans hg'c
    · rw [hx] at h; cases h
  · -- unspent
    intro w' tx idx hw'
    show AMap.get s'.unspent (w', tx, idx) = _
    rw [hSub'.unspent (w', tx, idx) hw']; exact hA'.unspent w' tx idx
  · -- game
    intro gk hgk
    show AMap.get s'.game gk = _
    rw [hSub'.game gk hgk]; exact hA'.game gk
  · -- txrecs
    intro key
    show AMap.get s'.txrecs key = _ ∨ (AMap.get s'.txrecs key = none ∧ _)
    rcases hSub'.txrecs key with h | h1
    · exact Or.inl (h.trans (gT' key))
    · refine Or.inr ⟨h1, ?_⟩
      cases hB : (bookOf c.p own' Y).txrecs key with
      | none => rfl
      | some loc =>
        exfalso
        obtain ⟨P₁, oc, P₂, hsp, _, hkey, _⟩ := txrec_occ (chainValid_minus HY.minus HY.valid) hB
        have hoc : oc ∈ occs Y := by rw [hsp]; simp
        have e : key.2 = oc.bm := congrArg Prod.snd hkey
        have hkh : key.2.height ≠ b.height := by rw [e]; exact occ_low hoc
        have hbb : key.2 ≠ ⟨b.height, b.id⟩ := by
          intro e2; apply hkh; rw [e2]
        have hBX : (bookOf c.p own' (Y ++ [b])).txrecs key = some loc := by
          rw [bookOf_snoc_txrecs c.p own' Y b key hbb]; exact hB
        have hUX : (joinBookK c w own' (Y ++ [b]) k).txrecs key = some loc := ((HU.minus.txrecs key loc).1 hBX).1
        rcases hMX.txrecs key with h | ⟨_, h2⟩
        · have h : AMap.get s.txrecs key = _ := h
          have : AMap.get s'.txrecs key = some loc := (fs.txrecs key hkh).trans (h.trans hUX)
          rw [h1] at this; cases this
        · rw [hBX] at h2; cases h2
  · -- txrecsW
    intro key loc hs hB'
    show ∃ ck cr, AMap.get s'.credits ck = some cr ∧ _
    have hs : AMap.get s'.txrecs key = some loc := hs
    have hg' : AMap.get g'.txrecs key = some loc := by
      rcases hSub'.txrecs key with h | h
      · rw [← h]; exact hs
      · rw [hs] at h; cases h
    have hUY : (joinBookK c w own' Y k').txrecs key = some loc := (gT' key).symm.trans hg'
    obtain ⟨oc, hoc, hkey, _⟩ := HUY.txrecOcc key loc hUY
    have e : key.2 = oc.bm := congrArg Prod.snd hkey
    have hkh : key.2.height ≠ b.height := by rw [e]; exact occ_low hoc
    have hklt : key.2.height < b.height := by rw [e]; exact occ_lt hoc
    have hbb : key.2 ≠ ⟨b.height, b.id⟩ := by
      intro e2; apply hkh; rw [e2]
    have hs0 : AMap.get s.txrecs key = some loc := by rw [← fs.txrecs key hkh]; exact hs
    have hB0 : (bookOf c.p own' (Y ++ [b])).txrecs key = none := by
      rw [bookOf_snoc_txrecs c.p own' Y b key hbb]; exact hB'
    obtain ⟨ck, cr, h1, h2, h3⟩ := hMX.txrecsW key loc hs0 hB0
    have h1 : AMap.get s.credits ck = some cr := h1
    have hUc : (joinBookK c w own' (Y ++ [b]) k).credits ck = some cr := by
      rcases hMX.credits ck with h | ⟨h, _⟩
      · have h : AMap.get s.credits ck = _ := h
        rw [← h]; exact h1
      · have h : AMap.get s.credits ck = none := h
        rw [h1] at h; cases h
    by_cases hck : ck.blk.height = b.height
    · exfalso
      rcases h3 with ⟨_, h4⟩ | ⟨dk, hsp, _, hdkh⟩
      · omega
      · obtain ⟨⟨amt, hUd⟩, _⟩ := HU.spKeyDebit ck dk cr hUc hsp
        have hgd : AMap.get g.debits dk = some (amt, ck) := (gD dk).trans hUd
        have hdk : dk.blk.height ≠ b.height := by omega
        have hg'd : AMap.get g'.debits dk = some (amt, ck) := (fg.debits dk hdk).trans hgd
        obtain ⟨cr2, hcr2, _⟩ := HUY.debitCredit dk (amt, ck) ((gD' dk).symm.trans hg'd)
        obtain ⟨oc2, hoc2, _, hbm2⟩ := HUY.creditOcc ck cr2 hcr2
        have := occ_lt hoc2
        rw [hbm2] at this
        omega
    · rcases fs.credits ck hck with h | ⟨cr1, e1, e2, dk', d', e3, e4, e5, _⟩
      · exact ⟨ck, cr, h.trans h1, h2, h3⟩
      · rw [h1] at e1
        injection e1 with e1
        subst e1
        refine ⟨ck, _, e2, h2, ?_⟩
        rcases h3 with hA3 | ⟨dk, hsp, h5, hdkh⟩
        · exact Or.inl hA3
        · exfalso
          have hUd' : (joinBookK c w own' (Y ++ [b]) k).debits dk' = some d' := by
            rcases hMX.debits dk' with h | ⟨h, _⟩
            · have h : AMap.get s.debits dk' = _ := h
              rw [← h]; exact e4
            · have h : AMap.get s.debits dk' = none := h
              rw [e4] at h; cases h
          obtain ⟨cr3, hcr3, hsp3⟩ := HU.debitCredit dk' d' hUd'
          rw [e5, hUc] at hcr3
          injection hcr3 with hcr3
          subst hcr3
          rw [hsp] at hsp3
          injection hsp3 with hsp3
          subst hsp3
          omega
  · -- blocks
    intro h
    show AMap.get s'.blocks h = blockRecOf (fun k => (AMap.get s'.txrecs k).isSome) Y h
    by_cases hh : h = b.height
    · subst hh
      rw [fsb0, hbh]
      exact (blockRecOf_none (Nat.le_refl _)).symm
    · rw [fsb h hh]
      have := hMX.blocks h
      rw [show AMap.get s.blocks h = _ from this]
      have hne : h ≠ Y.length := by rw [← hbh]; exact hh
      apply blockRecOf_congr_at
      · by_cases hl : h < Y.length
        · rw [List.getElem?_append_left hl]
        · rw [List.getElem?_eq_none (by rw [List.length_append]; simp; omega), List.getElem?_eq_none (by omega)]
      · intro b0 hb0 oc hoc
        have hbm : oc.bm = ⟨b0.height, b0.id⟩ := mem_occsFrom_bm hoc
        have hb0h : b0.height = h := H.heights h b0 hb0
        have hkey : (oc.t.id, oc.bm).2.height ≠ b.height := by
          show oc.bm.height ≠ _
          rw [hbm]
          show b0.height ≠ _
          rw [hb0h]; exact hh
        show (AMap.get s.txrecs (oc.t.id, oc.bm)).isSome = (AMap.get s'.txrecs (oc.t.id, oc.bm)).isSome
        rw [fs.txrecs _ hkey]
  · -- bal
    intro w' hw' hr
    show AMap.get s'.balance w' = _
    rw [hSub'.balance w' hw']
    have hr' : (readyWallets { g' with pendCred := [] } c.wallets).contains w' = true := by
      have : readyWallets { s' with pendCred := [] } c.wallets = readyWallets { g' with pendCred := [] } c.wallets :=
        readyWallets_congr (s := { g' with pendCred := [] }) (s' := { s' with pendCred := [] }) hSub'.status c.wallets
      rw [← this]; exact hr
    exact hMg'.bal w' hw' hr'
  · -- sync
    intro h
    show AMap.get s'.sync h = _
    rw [hSub'.sync]; exact hS'.sync h
  · -- syncedTo
    show s'.syncedTo + 1 = _
    rw [hSub'.syncedTo]; exact hS'.syncedTo

end MW.Lemmas.RemoveInterleave
