/-
  Under the abstraction relation, the read paths of the model (on a read-only view of a store)
  return what the specification says: Get, GetByPrefix, BucketNames.
-/
import MW.Lemmas.KvRel
namespace MW.Model.KV
open MW MW.KV
open MW.Spec.KV (DB)

variable {s : Store} {d : DB}

theorem DB.get_eq_some_iff (hn : (d.data.map (·.1)).Nodup) (p : Path) (k v : Bytes) :
    d.get p k = some v ↔ ((p, k), v) ∈ d.data := by
  unfold DB.get
  generalize d.data = l at hn
  induction l with
  | nil => simp
  | cons e r ih =>
    have hn' : (r.map (·.1)).Nodup := (List.nodup_cons.mp (by simpa using hn)).2
    have hnot : e.1 ∉ r.map (·.1) := (List.nodup_cons.mp (by simpa using hn)).1
    simp only [List.find?_cons]
    by_cases he : (e.1 == (p, k)) = true
    · have he' : e.1 = (p, k) := by simpa using he
      simp only [he, Option.map_some, Option.some.injEq, List.mem_cons]
      constructor
      · intro hv; left; rw [← hv, ← he']
      · rintro (h | h)
        · rw [← h]
        · exact absurd (List.mem_map.mpr ⟨_, h, by simp [he']⟩) hnot
    · have he' : e.1 ≠ (p, k) := by simpa using he
      simp only [he, List.mem_cons]
      rw [ih hn']
      constructor
      · intro h; exact Or.inr h
      · rintro (h | h)
        · exact absurd (by rw [← h]) he'
        · exact h

/-- point reads -/
theorem Rel.get (h : Rel s d) {p : Path} (hp : p ∈ d.buckets) (k : Bytes) :
    s.get (dataKey p k) = d.get p k := by
  apply Option.ext
  intro v
  rw [h.mem, DB.get_eq_some_iff h.dNodup]
  constructor
  · rintro (⟨q, _, hk, _⟩ | ⟨e, he, hk, hv⟩)
    · exact absurd hk (dataKey_ne_indexKey _ _ _)
    · obtain ⟨h1, h2⟩ := dataKey_injective (h.noSep hp) (h.noSep (h.dIn e he).1) hk
      obtain ⟨⟨ep, ek⟩, ev⟩ := e
      simp only at h1 h2 hv
      subst h1 h2 hv
      exact he
  · intro he
    exact Or.inr ⟨_, he, rfl, rfl⟩

theorem Rel.bucket_get (h : Rel s d) {b : Bucket} {p : Path} (hb : b.IsAt p) (hp : p ∈ d.buckets) (k : Bytes) :
    b.get (ro s) k = if k.length == 0 then none else d.get p k := by
  rw [Bucket.get_eq (ro_inv h.sorted)]
  by_cases hk : (k.length == 0) = true
  · simp [hk]
  · simp only [hk, Bool.false_eq_true, if_false]
    have : (ro s).commit = s := by simp [ro, Tx.commit]
    rw [this, hb.path]
    exact h.get hp k

/-- entries of the store under the scan prefix of bucket `p` are exactly the bucket's entries with
    that key prefix -/
theorem Rel.mem_scan_data (h : Rel s d) {p : Path} (hp : p ∈ d.buckets) (pfx : Bytes) (e : Bytes × Bytes) :
    e ∈ s.scan (dataKey p pfx) ↔ ∃ k, e = (dataKey p k, e.2) ∧ ((p, k), e.2) ∈ d.data ∧ pfx <+: k := by
  rw [mem_scan]
  constructor
  · rintro ⟨hm, hpre⟩
    have hg := SMap.get_of_mem h.sorted (k := e.1) (v := e.2) hm
    rcases (h.mem _ _).mp hg with ⟨q, _, hk, _⟩ | ⟨e', he', hk, hv⟩
    · rw [hk] at hpre
      exact absurd hpre (dataPrefix_not_prefix_indexKey _ _ _)
    · rw [hk] at hpre
      obtain ⟨h1, h2⟩ := (dataKey_prefix_iff (h.noSep (h.dIn e' he').1) (h.noSep hp) pfx _).mp hpre
      obtain ⟨⟨ep, ek⟩, ev⟩ := e'
      simp only at h1 h2 hv hk
      subst h1
      refine ⟨ek, ?_, by rw [hv]; exact he', h2⟩
      rw [← hk]
  · rintro ⟨k, he, hd, hpre⟩
    have hg := (h.mem (dataKey p k) e.2).mpr (Or.inr ⟨_, hd, rfl, rfl⟩)
    refine ⟨?_, ?_⟩
    · rw [he]; exact SMap.mem_of_get hg
    · rw [he]; exact (dataKey_prefix_iff (h.noSep hp) (h.noSep hp) pfx k).mpr ⟨rfl, hpre⟩

theorem drop_dataKey (p : Path) (k : Bytes) : (dataKey p k).drop ((pathBytes p).length + 1) = k := by
  unfold dataKey
  rw [show pathBytes p ++ sep :: k = (pathBytes p ++ [sep]) ++ k by simp]
  rw [show (pathBytes p).length + 1 = (pathBytes p ++ [sep]).length by simp]
  exact List.drop_left

theorem blt_dataKey (p : Path) (a b : Bytes) : blt (dataKey p a) (dataKey p b) = blt a b := by
  unfold dataKey
  rw [show pathBytes p ++ sep :: a = (pathBytes p ++ [sep]) ++ a by simp,
    show pathBytes p ++ sep :: b = (pathBytes p ++ [sep]) ++ b by simp, blt_append_left]

theorem DB.mem_bucketEntries (d : DB) (p : Path) (k v : Bytes) :
    (k, v) ∈ d.bucketEntries p ↔ ((p, k), v) ∈ d.data := by
  unfold DB.bucketEntries
  rw [mem_sortBy]
  simp only [List.mem_map, List.mem_filter, beq_iff_eq]
  constructor
  · rintro ⟨e, ⟨he, hp⟩, heq⟩
    obtain ⟨⟨ep, ek⟩, ev⟩ := e
    simp only at hp heq
    cases heq; subst hp; exact he
  · intro he
    exact ⟨((p, k), v), ⟨he, rfl⟩, rfl⟩

theorem DB.bucketEntries_sorted (d : DB) (hn : (d.data.map (·.1)).Nodup) (p : Path) :
    (d.bucketEntries p).Pairwise (fun a b => blt a.1 b.1 = true) := by
  unfold DB.bucketEntries
  apply sortBy_pairwise
  · intro a b c; exact blt_trans
  · rw [List.pairwise_map]
    have hpw : d.data.Pairwise (fun a b => a.1 ≠ b.1) := by
      have : (d.data.map (·.1)).Pairwise (· ≠ ·) := hn
      exact List.pairwise_map.mp this
    have hf := List.Pairwise.filter (fun e => e.1.1 == p) hpw
    refine List.Pairwise.imp_of_mem ?_ hf
    intro a b ha hb hne
    have hap : a.1.1 = p := by simpa using (List.mem_filter.mp ha).2
    have hbp : b.1.1 = p := by simpa using (List.mem_filter.mp hb).2
    have hk : a.1.2 ≠ b.1.2 := by
      intro e; apply hne
      exact Prod.ext (by rw [hap, hbp]) e
    simp only
    cases h1 : blt a.1.2 b.1.2 with
    | true => exact Or.inl rfl
    | false =>
      cases h2 : blt b.1.2 a.1.2 with
      | true => exact Or.inr rfl
      | false => exact absurd (eq_of_not_blt h1 h2) hk

/-- prefix reads -/
theorem Rel.getByPrefix (h : Rel s d) {b : Bucket} {p : Path} (hb : b.IsAt p) (hp : p ∈ d.buckets) (pfx : Bytes) :
    b.getByPrefix (ro s) pfx = (d.bucketEntries p).filter fun e => pfx.isPrefixOf e.1 := by
  unfold Bucket.getByPrefix
  have hr : (ro s).readOnly = true := rfl
  simp only [hr, if_true, Tx.overlayEntries_ro hr, List.append_nil]
  have hdb : (ro s).db = s := rfl
  rw [hdb, hb.path, show pathBytes p ++ sep :: pfx = dataKey p pfx from rfl]
  have hpl : b.pathLen = (pathBytes p).length := by unfold Bucket.pathLen; rw [hb.path]
  rw [hpl]
  apply pairwise_ext (R := fun a b : Bytes × Bytes => blt a.1 b.1 = true)
    (fun a => by simp [blt_irrefl]) (fun a b c => blt_trans)
  · rw [List.pairwise_map]
    have hs : SMap.Sorted (s.scan (dataKey p pfx)) := SMap.range_sorted h.sorted _ _
    refine List.Pairwise.imp_of_mem ?_ hs
    intro x y hx hy hlt
    obtain ⟨kx, hex, _, _⟩ := (h.mem_scan_data hp pfx x).mp hx
    obtain ⟨ky, hey, _, _⟩ := (h.mem_scan_data hp pfx y).mp hy
    have h1 : x.1 = dataKey p kx := by rw [hex]
    have h2 : y.1 = dataKey p ky := by rw [hey]
    simp only [h1, h2, drop_dataKey]
    rw [h1, h2, blt_dataKey] at hlt
    exact hlt
  · exact List.Pairwise.filter _ (DB.bucketEntries_sorted d h.dNodup p)
  · rintro ⟨k, v⟩
    simp only [List.mem_map, List.mem_filter, DB.mem_bucketEntries]
    constructor
    · rintro ⟨e, he, heq⟩
      obtain ⟨k', hek, hd, hpre⟩ := (h.mem_scan_data hp pfx e).mp he
      have h1 : e.1 = dataKey p k' := by rw [hek]
      rw [h1, drop_dataKey] at heq
      cases heq
      exact ⟨hd, List.isPrefixOf_iff_prefix.mpr hpre⟩
    · rintro ⟨hd, hpre⟩
      refine ⟨(dataKey p k, v), (h.mem_scan_data hp pfx _).mpr ⟨k, rfl, hd, List.isPrefixOf_iff_prefix.mp hpre⟩, ?_⟩
      simp [drop_dataKey]

/-! ### bucket listings -/

theorem lastName_concat (p : Path) (n : Bytes) : lastName (p ++ [n]) = n := by
  simp [lastName]

theorem legal_child (p : Path) (hp : NoSep p) (n : Bytes) (hn : sep ∉ n) :
    nameEntryLegal p.length (idxKey (p ++ [n])) n = true := by
  unfold nameEntryLegal
  rw [split_idxKey (hp.append hn)]
  simp only [List.length_append, List.length_singleton, List.length_cons, List.length_nil, Bool.and_eq_true, beq_iff_eq]
  refine ⟨trivial, ?_⟩
  rw [show tag :: itoa (p.length + (0 + 1)) :: (p ++ [n]) = (tag :: itoa (p.length + 1) :: p) ++ [n] by simp]
  rw [List.getD_eq_getElem?_getD, List.getElem?_append_right (by simp)]
  simp

/-- store entries under the index-scan prefix of `p` are the index entries of its existing children -/
theorem Rel.mem_scan_children (h : Rel s d) (p : Path) (hp : NoSep p) (e : Bytes × Bytes) :
    e ∈ s.scan (childScanPrefix p) ↔ ∃ n, e = (idxKey (p ++ [n]), n) ∧ p ++ [n] ∈ d.buckets := by
  rw [mem_scan]
  constructor
  · rintro ⟨hm, hpre⟩
    have hg := SMap.get_of_mem h.sorted (k := e.1) (v := e.2) hm
    rcases (h.mem _ _).mp hg with ⟨q, hq, hk, hv⟩ | ⟨e', _, hk, _⟩
    · rw [hk] at hpre
      obtain ⟨n, rfl⟩ := (childScan_matches_iff hp (h.noSep hq)).mp hpre
      refine ⟨n, ?_, hq⟩
      rw [lastName_concat] at hv
      exact Prod.ext hk hv
    · rw [hk, childScanPrefix_eq] at hpre
      exact absurd hpre (indexPrefix_not_prefix_dataKey _ _ _ _)
  · rintro ⟨n, he, hq⟩
    have hg := (h.mem (idxKey (p ++ [n])) n).mpr (Or.inl ⟨_, hq, rfl, (lastName_concat p n).symm⟩)
    rw [he]
    exact ⟨SMap.mem_of_get hg, (childScan_matches_iff hp (h.noSep hq)).mpr ⟨n, rfl⟩⟩

theorem DB.mem_childNames (d : DB) (p : Path) (n : Bytes) : n ∈ d.childNames p ↔ p ++ [n] ∈ d.buckets := by
  unfold DB.childNames
  rw [mem_sortBy]
  simp only [List.mem_filterMap, List.mem_filter, Bool.and_eq_true, bne_iff_ne, ne_eq, beq_iff_eq]
  constructor
  · rintro ⟨q, ⟨hq, hne, hdl⟩, hl⟩
    have : q = q.dropLast ++ [n] := by
      rcases List.eq_nil_or_concat q with h | ⟨l, b, h⟩
      · exact absurd h hne
      · subst h
        simp only [List.concat_eq_append, List.getLast?_concat, Option.some.injEq] at hl
        subst hl; simp
    rw [hdl] at this
    rw [← this]; exact hq
  · intro hq
    exact ⟨p ++ [n], ⟨hq, by simp, by simp⟩, by simp⟩

theorem DB.childNames_sorted (d : DB) (hn : d.buckets.Nodup) (p : Path) :
    (d.childNames p).Pairwise (fun a b => blt a b = true) := by
  unfold DB.childNames
  apply sortBy_pairwise
  · intro a b c; exact blt_trans
  · rw [List.pairwise_filterMap]
    have hpw : d.buckets.Pairwise (· ≠ ·) := hn
    have hf := List.Pairwise.filter (fun q => q != [] && q.dropLast == p) hpw
    refine List.Pairwise.imp_of_mem ?_ hf
    intro a b ha hb hne x hx y hy
    have ha' := (List.mem_filter.mp ha).2
    have hb' := (List.mem_filter.mp hb).2
    simp only [Bool.and_eq_true, bne_iff_ne, ne_eq, beq_iff_eq] at ha' hb'
    have hxy : x ≠ y := by
      intro e; subst e
      apply hne
      have e1 : a = a.dropLast ++ [x] := by
        rcases List.eq_nil_or_concat a with h | ⟨l, c, h⟩
        · exact absurd h ha'.1
        · subst h
          simp only [List.concat_eq_append, List.getLast?_concat, Option.some.injEq] at hx
          subst hx; simp
      have e2 : b = b.dropLast ++ [x] := by
        rcases List.eq_nil_or_concat b with h | ⟨l, c, h⟩
        · exact absurd h hb'.1
        · subst h
          simp only [List.concat_eq_append, List.getLast?_concat, Option.some.injEq] at hy
          subst hy; simp
      rw [e1, e2, ha'.2, hb'.2]
    cases h1 : blt x y with
    | true => exact Or.inl rfl
    | false =>
      cases h2 : blt y x with
      | true => exact Or.inr rfl
      | false => exact absurd (eq_of_not_blt h1 h2) hxy

/-- bucket listings (transaction level: `p = []`) -/
theorem Rel.bucketNamesAt (h : Rel s d) (p : Path) (hp : NoSep p) :
    (ro s).bucketNamesAt (childScanPrefix p) p.length = .ok (d.childNames p) := by
  rw [Tx.bucketNamesAt_ro (tx := ro s) rfl]
  have hdb : (ro s).db = s := rfl
  rw [hdb]
  have hall : (s.scan (childScanPrefix p)).all (legalEntry p.length) = true := by
    rw [List.all_eq_true]
    intro e he
    obtain ⟨n, rfl, hq⟩ := (h.mem_scan_children p hp e).mp he
    have hv : ValidName n := (h.bValid _ hq).2 n (by simp)
    exact legal_child p hp n hv.noSep
  simp only [hall, if_true]
  congr 1
  apply pairwise_ext (R := fun a b : Bytes => blt a b = true)
    (fun a => by simp [blt_irrefl]) (fun a b c => blt_trans)
  · rw [List.pairwise_map]
    have hs : SMap.Sorted (s.scan (childScanPrefix p)) := SMap.range_sorted h.sorted _ _
    refine List.Pairwise.imp_of_mem ?_ hs
    intro x y hx hy hlt
    obtain ⟨n, rfl, hq⟩ := (h.mem_scan_children p hp x).mp hx
    obtain ⟨m, rfl, hq'⟩ := (h.mem_scan_children p hp y).mp hy
    have hvn : ValidName n := (h.bValid _ hq).2 n (by simp)
    have hvm : ValidName m := (h.bValid _ hq').2 m (by simp)
    have e1 := legal_child_key hp ((childScan_matches_iff hp (h.noSep hq)).mpr ⟨n, rfl⟩) (legal_child p hp n hvn.noSep)
    have e2 := legal_child_key hp ((childScan_matches_iff hp (h.noSep hq')).mpr ⟨m, rfl⟩) (legal_child p hp m hvm.noSep)
    simp only at hlt ⊢
    rw [e1, e2, blt_append_left] at hlt
    exact hlt
  · exact DB.childNames_sorted d h.bNodup p
  · intro n
    rw [DB.mem_childNames]
    simp only [List.mem_map]
    constructor
    · rintro ⟨e, he, rfl⟩
      obtain ⟨n, rfl, hq⟩ := (h.mem_scan_children p hp e).mp he
      exact hq
    · intro hq
      exact ⟨(idxKey (p ++ [n]), n), (h.mem_scan_children p hp _).mpr ⟨n, rfl, hq⟩, rfl⟩

theorem Rel.tx_bucketNames (h : Rel s d) : (ro s).bucketNames = .ok (d.childNames []) := by
  rw [Tx.bucketNames_eq]
  exact h.bucketNamesAt [] (by intro x hx; cases hx)

theorem Rel.bucket_bucketNames (h : Rel s d) {b : Bucket} {p : Path} (hb : b.IsAt p) :
    b.bucketNames (ro s) = .ok (d.childNames p) := by
  rw [Bucket.bucketNames_eq hb]
  exact h.bucketNamesAt p hb.noSep

end MW.Model.KV
