/-
  Lemmas for the byte-level keystore codecs, part 6: the exported keystore TEXT determines every field –
  `parseKeystore (render k) = some k` for every keystore value whose strings are valid UTF-8 and whose numbers
  fit their Go types.  (`parseKeystore` reads exactly the text `render` writes; the run compares it with
  json.Unmarshal on every generated document.)
-/
import MW.Lemmas.KsCodecJson
import Mathlib.Tactic.IntervalCases
import Mathlib.Tactic.SplitIfs
namespace MW.KsCodecL
open MW MW.Model.KsCodec

/-! ### literals -/

theorem readLit_append (lit t : Bytes) : readLit lit (lit ++ t) = some t := by
  unfold readLit
  have h : lit.isPrefixOf (lit ++ t) = true := by simp
  rw [if_pos h, List.drop_left]

/-- two byte strings that differ at some position inside both: neither is a prefix of any extension of the other -/
def differEarly : Bytes → Bytes → Bool
  | a :: as, b :: bs => a != b || differEarly as bs
  | _, _ => false

theorem readLit_differ {a b : Bytes} (h : differEarly a b = true) (t : Bytes) : readLit a (b ++ t) = none := by
  have : a.isPrefixOf (b ++ t) = false := by
    induction a generalizing b with
    | nil => simp [differEarly] at h
    | cons x as ih =>
      cases b with
      | nil => simp [differEarly] at h
      | cons y bs =>
        simp only [differEarly, Bool.or_eq_true, bne_iff_ne, ne_eq] at h
        simp only [List.cons_append, List.isPrefixOf, Bool.and_eq_false_iff, beq_eq_false_iff_ne, ne_eq]
        by_cases hxy : x = y
        · right; exact ih (h.resolve_left (fun hn => hn hxy))
        · left; exact hxy
  simp [readLit, this]

/-! ### numbers -/

theorem decDigits_lt (f n : Nat) : ∀ d ∈ decDigits f n, d < 10 := by
  induction f generalizing n with
  | zero => simp [decDigits]
  | succ f ih =>
    intro d hd
    simp only [decDigits] at hd
    split at hd
    · simp at hd; omega
    · simp only [List.mem_append, List.mem_singleton] at hd
      rcases hd with hd | hd
      · exact ih _ d hd
      · omega

theorem decDigits_ne_nil (f n : Nat) : decDigits (f + 1) n ≠ [] := by
  simp only [decDigits]; split <;> simp

theorem foldl_snoc_digit (l : List Nat) (d acc : Nat) :
    (l ++ [d]).foldl (fun a x => a * 10 + x) acc = (l.foldl (fun a x => a * 10 + x) acc) * 10 + d := by
  simp [List.foldl_append]

theorem decDigits_value (f n : Nat) (h : n < 10 ^ f) : (decDigits f n).foldl (fun a x => a * 10 + x) 0 = n := by
  induction f generalizing n with
  | zero => simp at h; subst h; rfl
  | succ f ih =>
    simp only [decDigits]
    split
    · simp
    · rw [foldl_snoc_digit, ih (n / 10) (by rw [Nat.pow_succ] at h; omega)]
      omega

theorem lt_ten_pow_succ (n : Nat) : n < 10 ^ (n + 1) := by
  induction n with
  | zero => simp
  | succ n ih => rw [Nat.pow_succ]; omega

theorem digit_byte (d : Nat) (h : d < 10) :
    isDigit (UInt8.ofNat (48 + d)) = true ∧ (UInt8.ofNat (48 + d)).toNat - 48 = d := by
  interval_cases d <;> decide

theorem takeWhile_append_stop {α : Type} (p : α → Bool) (l t : List α) (hl : ∀ x ∈ l, p x = true)
    (ht : ∀ x, t.head? = some x → p x = false) : (l ++ t).takeWhile p = l ∧ (l ++ t).dropWhile p = t := by
  induction l with
  | nil =>
    cases t with
    | nil => simp
    | cons x r => have := ht x rfl; simp [this]
  | cons a l ih =>
    have ha := hl a List.mem_cons_self
    obtain ⟨h1, h2⟩ := ih (fun x hx => hl x (List.mem_cons_of_mem _ hx))
    simp [ha, h1, h2]

theorem foldl_digit_bytes (ds : List Nat) (h : ∀ d ∈ ds, d < 10) (acc : Nat) :
    (ds.map (fun d => UInt8.ofNat (48 + d))).foldl (fun a (c : UInt8) => a * 10 + (c.toNat - 48)) acc =
      ds.foldl (fun a x => a * 10 + x) acc := by
  induction ds generalizing acc with
  | nil => rfl
  | cons d ds ih =>
    have hd := (digit_byte d (h d List.mem_cons_self)).2
    simp only [List.map_cons, List.foldl_cons, hd]
    exact ih (fun x hx => h x (List.mem_cons_of_mem _ hx)) _

/-- reading a rendered number back, when what follows is not a digit -/
theorem readNat_jnat (n max : Nat) (hn : n ≤ max) (t : Bytes) (ht : ∀ x, t.head? = some x → isDigit x = false) :
    readNat max (jnat n ++ t) = some (n, t) := by
  have hall : ∀ c ∈ jnat n, isDigit c = true := by
    intro c hc
    obtain ⟨d, hd, rfl⟩ := List.mem_map.mp hc
    exact (digit_byte d (decDigits_lt _ _ d hd)).1
  obtain ⟨h1, h2⟩ := takeWhile_append_stop isDigit (jnat n) t hall ht
  have hne : (jnat n).isEmpty = false := by
    have := decDigits_ne_nil n n
    cases hdd : decDigits (n + 1) n with
    | nil => exact absurd hdd this
    | cons a l => simp [jnat, hdd]
  have hv : (jnat n).foldl (fun a (c : UInt8) => a * 10 + (c.toNat - 48)) 0 = n := by
    unfold jnat
    rw [foldl_digit_bytes _ (decDigits_lt _ _), decDigits_value _ _ (lt_ten_pow_succ n)]
  simp only [readNat, h1, h2, hne, hv, hn, if_true, Bool.false_eq_true, if_false]

/-! ### strings -/

theorem readStrBody_escAscii (b : UInt8) (hb : b.toNat < 128) (f : Nat) (rest : Bytes) :
    readStrBody (f + 1) (escAscii b ++ rest) = (readStrBody f rest).map (fun p => (b :: p.1, p.2)) := by
  have hb' : b = UInt8.ofNat b.toNat := by simp
  generalize b.toNat = n at hb hb'
  subst hb'
  interval_cases n <;> rfl

theorem readTok_raw (c : UInt8) (rest : Bytes) (h1 : c ≠ 92) (h2 : c ≠ 34) (h3 : 32 ≤ c.toNat) :
    readTok (c :: rest) = some ([c], rest) := by
  have : ¬ c.toNat < 32 := by omega
  simp [readTok, h1, h2, this]

theorem readStrBody_high (c : UInt8) (hc : 128 ≤ c.toNat) (f : Nat) (rest : Bytes) :
    readStrBody (f + 1) (c :: rest) = (readStrBody f rest).map (fun p => (c :: p.1, p.2)) := by
  have h1 : c ≠ 92 := by intro h; subst h; simp at hc
  have h2 : c ≠ 34 := by intro h; subst h; simp at hc
  simp only [readStrBody, h2, if_false, readTok_raw c rest h1 h2 (by omega)]
  rfl

theorem readStrBody_highs (l : Bytes) (hl : ∀ c ∈ l, 128 ≤ c.toNat) (f : Nat) (rest : Bytes) :
    readStrBody (f + l.length) (l ++ rest) = (readStrBody f rest).map (fun p => (l ++ p.1, p.2)) := by
  induction l with
  | nil => cases h : readStrBody f rest <;> simp [h]
  | cons c l ih =>
    have hc := hl c List.mem_cons_self
    have ih' := ih (fun x hx => hl x (List.mem_cons_of_mem _ hx))
    rw [List.length_cons, ← Nat.add_assoc, List.cons_append, readStrBody_high c hc, ih']
    cases readStrBody f rest <;> simp

theorem utf8Size_spec (b : UInt8) (r : Bytes) (hb : 128 ≤ b.toNat) (h0 : utf8Size (b :: r) ≠ 0) :
    2 ≤ utf8Size (b :: r) ∧ utf8Size (b :: r) ≤ r.length + 1 ∧
      ∀ c ∈ (b :: r).take (utf8Size (b :: r)), 128 ≤ c.toNat := by
  have hlt : ¬ b.toNat < 128 := by omega
  rcases r with _ | ⟨b1, _ | ⟨b2, _ | ⟨b3, r'⟩⟩⟩ <;>
    simp only [utf8Size, hlt, if_false, isCont] at h0 ⊢ <;>
    split_ifs at h0 ⊢ <;> simp_all <;> omega


theorem readStrBody_u2028 (f : Nat) (x : Bytes) :
    readStrBody (f + 1) (asc "\\u2028" ++ x) = (readStrBody f x).map (fun p => ([226, 128, 168] ++ p.1, p.2)) := rfl
theorem readStrBody_u2029 (f : Nat) (x : Bytes) :
    readStrBody (f + 1) (asc "\\u2029" ++ x) = (readStrBody f x).map (fun p => ([226, 128, 169] ++ p.1, p.2)) := rfl

theorem readStrBody_escBody : ∀ (n : Nat) (s : Bytes) (f : Nat) (t : Bytes),
    validUtf8 n s = true → s.length ≤ n → s.length + 1 ≤ f →
    readStrBody f (escBody n s ++ 34 :: t) = some (s, t) := by
  intro n
  induction n with
  | zero =>
    intro s f t _ hl hf
    have : s = [] := by cases s <;> simp_all
    subst this
    obtain ⟨f', rfl⟩ : ∃ f', f = f' + 1 := ⟨f - 1, by simp at hf; omega⟩
    simp [escBody, readStrBody]
  | succ n ih =>
    intro s f t hv hl hf
    cases s with
    | nil =>
      obtain ⟨f', rfl⟩ : ∃ f', f = f' + 1 := ⟨f - 1, by simp at hf; omega⟩
      simp [escBody, readStrBody]
    | cons b r =>
      simp only [List.length_cons] at hl hf
      by_cases hb : b.toNat < 128
      · have hsz : utf8Size (b :: r) = 1 := by simp [utf8Size, hb]
        have hv' : validUtf8 n r = true := by simpa [validUtf8, hsz] using hv
        obtain ⟨f', rfl⟩ : ∃ f', f = f' + 1 := ⟨f - 1, by omega⟩
        have e : escBody (n + 1) (b :: r) = escAscii b ++ escBody n r := by simp [escBody, hb]
        rw [e, List.append_assoc, readStrBody_escAscii b hb, ih r f' t hv' (by omega) (by omega)]
        rfl
      · have hb' : 128 ≤ b.toNat := by omega
        cases hm : utf8Size (b :: r) with
        | zero => simp [validUtf8, hm] at hv
        | succ m =>
          have h0 : utf8Size (b :: r) ≠ 0 := by rw [hm]; simp
          obtain ⟨h2, hle, hall⟩ := utf8Size_spec b r hb' h0
          rw [hm] at h2 hle hall
          have hv' : validUtf8 n (r.drop m) = true := by simpa [validUtf8, hm] using hv
          have hsplit : b :: r = (b :: r).take (m + 1) ++ r.drop m := by
            rw [← List.take_append_drop (m + 1) (b :: r)]; simp
          have hlen : ((b :: r).take (m + 1)).length = m + 1 := by simp; omega
          have hrest : (r.drop m).length + m = r.length := by simp; omega
          have e : escBody (n + 1) (b :: r) =
              if (b :: r).take (m + 1) = [226, 128, 168] then asc "\\u2028" ++ escBody n (r.drop m)
              else if (b :: r).take (m + 1) = [226, 128, 169] then asc "\\u2029" ++ escBody n (r.drop m)
              else (b :: r).take (m + 1) ++ escBody n (r.drop m) := by
            simp [escBody, hb, hm]
          rw [e]
          have ihr := fun f' (hf' : (r.drop m).length + 1 ≤ f') => ih (r.drop m) f' t hv' (by omega) hf'
          split
          · rename_i hch
            obtain ⟨f', rfl⟩ : ∃ f', f = f' + 1 := ⟨f - 1, by omega⟩
            rw [List.append_assoc, readStrBody_u2028, ihr f' (by omega)]
            conv_rhs => rw [hsplit, hch]
            rfl
          · split
            · rename_i _ hch
              obtain ⟨f', rfl⟩ : ∃ f', f = f' + 1 := ⟨f - 1, by omega⟩
              rw [List.append_assoc, readStrBody_u2029, ihr f' (by omega)]
              conv_rhs => rw [hsplit, hch]
              rfl
            · obtain ⟨f', rfl⟩ : ∃ f', f = f' + ((b :: r).take (m + 1)).length := ⟨f - (m + 1), by rw [hlen]; omega⟩
              rw [List.append_assoc, readStrBody_highs _ hall, ihr f' (by rw [hlen] at hf; omega)]
              conv_rhs => rw [hsplit]
              rfl

theorem escAscii_length_pos (b : UInt8) : 1 ≤ (escAscii b).length := by
  have e1 : (asc "\\b").length = 2 := by decide
  have e2 : (asc "\\f").length = 2 := by decide
  have e3 : (asc "\\n").length = 2 := by decide
  have e4 : (asc "\\r").length = 2 := by decide
  have e5 : (asc "\\t").length = 2 := by decide
  simp only [escAscii]
  split_ifs <;> simp [e1, e2, e3, e4, e5]

theorem escBody_length_ge : ∀ (n : Nat) (s : Bytes), s.length ≤ n → s.length ≤ (escBody n s).length := by
  intro n
  induction n with
  | zero => intro s hl; cases s <;> simp_all
  | succ n ih =>
    intro s hl
    cases s with
    | nil => simp
    | cons b r =>
      simp only [List.length_cons] at hl
      by_cases hb : b.toNat < 128
      · have e : escBody (n + 1) (b :: r) = escAscii b ++ escBody n r := by simp [escBody, hb]
        have := escAscii_length_pos b
        have := ih r (by omega)
        rw [e]; simp; omega
      · cases hm : utf8Size (b :: r) with
        | zero =>
          have e : escBody (n + 1) (b :: r) = asc "\\ufffd" ++ escBody n r := by simp [escBody, hb, hm]
          have := ih r (by omega)
          have h6 : (asc "\\ufffd").length = 6 := by decide
          rw [e]; simp [h6]; omega
        | succ m =>
          have hb' : 128 ≤ b.toNat := by omega
          have h0 : utf8Size (b :: r) ≠ 0 := by rw [hm]; simp
          obtain ⟨h2, hle, _⟩ := utf8Size_spec b r hb' h0
          rw [hm] at h2 hle
          have e : escBody (n + 1) (b :: r) =
              if (b :: r).take (m + 1) = [226, 128, 168] then asc "\\u2028" ++ escBody n (r.drop m)
              else if (b :: r).take (m + 1) = [226, 128, 169] then asc "\\u2029" ++ escBody n (r.drop m)
              else (b :: r).take (m + 1) ++ escBody n (r.drop m) := by
            simp [escBody, hb, hm]
          have := ih (r.drop m) (by simp; omega)
          have h6 : (asc "\\u2028").length = 6 := by decide
          have h6' : (asc "\\u2029").length = 6 := by decide
          have hd : (r.drop m).length = r.length - m := by simp
          rw [e]
          split
          · rename_i hch
            have : m + 1 = 3 := by have := congrArg List.length hch; simp at this; omega
            simp [h6]; omega
          · split
            · rename_i _ hch
              have : m + 1 = 3 := by have := congrArg List.length hch; simp at this; omega
              simp [h6']; omega
            · simp; omega

/-- strings that survive encoding/json: valid UTF-8 -/
def Utf8Ok (s : Bytes) : Prop := validUtf8 s.length s = true

/-- reading a rendered string back -/
theorem readStr_jstr (s t : Bytes) (hv : Utf8Ok s) : readStr (jstr s ++ t) = some (s, t) := by
  have hl := escBody_length_ge s.length s (Nat.le_refl _)
  have e : jstr s ++ t = 34 :: (escBody s.length s ++ 34 :: t) := by simp [jstr]
  rw [e]
  simp only [readStr]
  exact readStrBody_escBody s.length s _ t hv (Nat.le_refl _) (by simp; omega)

/-! ### members -/

/-- the value has the member's type, fits it, and (strings) is valid UTF-8 -/
def fvOk (f : FSpec) : FV → Prop
  | .n v => f.isNat = true ∧ v ≤ f.max
  | .s b => f.isNat = false ∧ Utf8Ok b

/-- for every optional member, its prefix differs early from the prefix of every later member (first or not) -/
def noConfusion : List FSpec → Bool
  | [] => true
  | f :: r =>
    (!f.omitEmpty || r.all (fun g => differEarly (pfx true f.name) (pfx true g.name) &&
                                     differEarly (pfx false f.name) (pfx false g.name))) && noConfusion r

theorem pfx_head (first : Bool) (name : String) : ∃ u, pfx first name = (if first then 34 else 44) :: u := by
  cases first <;> simp [pfx]

theorem readLit_pfx_close (first : Bool) (name : String) (t : Bytes) : readLit (pfx first name) (125 :: t) = none := by
  obtain ⟨u, hu⟩ := pfx_head first name
  rw [hu]
  cases first <;> simp [readLit, List.isPrefixOf]

/-- what the members (and the closing brace behind them) start with -/
theorem renderMembers_head (fvs : List (FSpec × FV)) (first : Bool) (t : Bytes) :
    renderMembers fvs first ++ t = t ∨
      ∃ g ∈ fvs.map Prod.fst, ∃ u, renderMembers fvs first ++ t = pfx first g.name ++ u := by
  induction fvs with
  | nil => left; rfl
  | cons p r ih =>
    obtain ⟨f, v⟩ := p
    simp only [renderMembers]
    split
    · rcases ih with h | ⟨g, hg, u, hu⟩
      · left; exact h
      · right; exact ⟨g, by simp at hg ⊢; right; exact hg, u, hu⟩
    · right
      exact ⟨f, by simp, v.text ++ renderMembers r false ++ t, by simp [List.append_assoc]⟩

theorem members_next_not_digit (fvs : List (FSpec × FV)) (t : Bytes) :
    ∀ x, (renderMembers fvs false ++ 125 :: t).head? = some x → isDigit x = false := by
  intro x hx
  rcases renderMembers_head fvs false (125 :: t) with h | ⟨g, _, u, hu⟩
  · rw [h] at hx; simp at hx; subst hx; decide
  · obtain ⟨w, hw⟩ := pfx_head false g.name
    rw [hu, hw] at hx; simp at hx; subst hx; decide

theorem noConfusion_later {f : FSpec} {r : List FSpec} (h : noConfusion (f :: r) = true) (ho : f.omitEmpty = true)
    (g : FSpec) (hg : g ∈ r) (first : Bool) : differEarly (pfx first f.name) (pfx first g.name) = true := by
  simp only [noConfusion, ho, Bool.not_true, Bool.false_or, Bool.and_eq_true, List.all_eq_true] at h
  have := h.1 g hg
  cases first <;> simp_all

theorem parseMembers_render : ∀ (fs : List FSpec) (vs : List FV) (first : Bool) (t : Bytes),
    fs.length = vs.length → noConfusion fs = true → (∀ p ∈ fs.zip vs, fvOk p.1 p.2) →
    parseMembers fs first (renderMembers (fs.zip vs) first ++ 125 :: t) = some (vs, 125 :: t) := by
  intro fs
  induction fs with
  | nil =>
    intro vs first t hl _ _
    cases vs with
    | nil => rfl
    | cons _ _ => simp at hl
  | cons f fs ih =>
    intro vs first t hl hnc hok
    cases vs with
    | nil => simp at hl
    | cons v vs =>
      simp only [List.length_cons, Nat.add_right_cancel_iff] at hl
      have hnc' : noConfusion fs = true := by simp only [noConfusion, Bool.and_eq_true] at hnc; exact hnc.2
      have hok' : ∀ p ∈ fs.zip vs, fvOk p.1 p.2 := fun p hp => hok p (by simp [hp])
      have hfv : fvOk f v := hok (f, v) (by simp)
      simp only [List.zip_cons_cons, renderMembers]
      by_cases hom : (f.omitEmpty && v.isZero) = true
      · -- the member is omitted: what follows is a later member's prefix or the closing brace
        simp only [hom, if_true]
        simp only [Bool.and_eq_true] at hom
        have hnone : readLit (pfx first f.name) (renderMembers (fs.zip vs) first ++ 125 :: t) = none := by
          rcases renderMembers_head (fs.zip vs) first (125 :: t) with h | ⟨g, hg, u, hu⟩
          · rw [h]; exact readLit_pfx_close first f.name t
          · rw [hu]
            have hg' : g ∈ fs := by
              obtain ⟨p, hp, rfl⟩ := List.mem_map.mp hg
              exact (List.of_mem_zip hp).1
            exact readLit_differ (noConfusion_later hnc hom.1 g hg' first) u
        have hz : f.zero = v := by
          cases v with
          | n x => simp only [fvOk] at hfv; simp [FV.isZero] at hom; simp [FSpec.zero, hfv.1, hom.2]
          | s b => simp only [fvOk] at hfv; simp [FV.isZero] at hom; simp [FSpec.zero, hfv.1, hom.2]
        simp only [parseMembers, hnone, hom.1, if_true, ih vs first t hl hnc' hok', Option.map, hz]
      · simp only [hom, Bool.false_eq_true, if_false]
        have hrd : readValue f (v.text ++ (renderMembers (fs.zip vs) false ++ 125 :: t)) =
            some (v, renderMembers (fs.zip vs) false ++ 125 :: t) := by
          cases v with
          | n x =>
            simp only [fvOk] at hfv
            simp only [readValue, hfv.1, if_true, FV.text,
              readNat_jnat x f.max hfv.2 _ (members_next_not_digit (fs.zip vs) t), Option.map]
          | s b =>
            simp only [fvOk] at hfv
            simp only [readValue, hfv.1, Bool.false_eq_true, if_false, FV.text, readStr_jstr b _ hfv.2, Option.map]
        rw [List.append_assoc, List.append_assoc]
        simp only [parseMembers, readLit_append, hrd, ih vs false t hl hnc' hok', Option.map]

/-! ### the document -/

/-- keystore values that survive export: strings valid UTF-8, numbers within their Go types -/
structure KsOk (k : KeystoreJ) : Prop where
  remarks : Utf8Ok k.remarks
  version : k.version ≤ 255
  cipher : Utf8Ok k.cipher
  entropyEnc : Utf8Ok k.entropyEnc
  kdf : Utf8Ok k.kdf
  pubParams : Utf8Ok k.pubParams
  privParams : Utf8Ok k.privParams
  cryptoKeyPubEnc : Utf8Ok k.cryptoKeyPubEnc
  cryptoKeyPrivEnc : Utf8Ok k.cryptoKeyPrivEnc
  cryptoKeyEntropyEnc : Utf8Ok k.cryptoKeyEntropyEnc
  purpose : k.purpose ≤ 4294967295
  coin : k.coin ≤ 4294967295
  account : k.account ≤ 4294967295
  externalChildNum : k.externalChildNum ≤ 4294967295
  internalChildNum : k.internalChildNum ≤ 4294967295

theorem specs_noConfusion : noConfusion cryptoSpec = true ∧ noConfusion hdSpec = true := by decide

/-- the exported text determines the keystore value: reading `render k` back gives `k` -/
theorem parseKeystore_render (k : KeystoreJ) (h : KsOk k) : parseKeystore (render k) = some k := by
  have hc : ∀ p ∈ cryptoSpec.zip (cryptoVals k), fvOk p.1 p.2 := by
    intro p hp
    simp only [cryptoSpec, cryptoVals, List.zip_cons_cons, List.zip_nil_right, List.mem_cons, List.not_mem_nil, or_false] at hp
    rcases hp with rfl | rfl | rfl | rfl | rfl | rfl | rfl | rfl | rfl <;>
      first
        | exact ⟨rfl, h.version⟩ | exact ⟨rfl, h.cipher⟩ | exact ⟨rfl, h.entropyEnc⟩ | exact ⟨rfl, h.kdf⟩
        | exact ⟨rfl, h.pubParams⟩ | exact ⟨rfl, h.privParams⟩ | exact ⟨rfl, h.cryptoKeyPubEnc⟩
        | exact ⟨rfl, h.cryptoKeyPrivEnc⟩ | exact ⟨rfl, h.cryptoKeyEntropyEnc⟩
  have hh : ∀ p ∈ hdSpec.zip (hdVals k), fvOk p.1 p.2 := by
    intro p hp
    simp only [hdSpec, hdVals, List.zip_cons_cons, List.zip_nil_right, List.mem_cons, List.not_mem_nil, or_false] at hp
    rcases hp with rfl | rfl | rfl | rfl | rfl <;>
      first
        | exact ⟨rfl, h.purpose⟩ | exact ⟨rfl, h.coin⟩ | exact ⟨rfl, h.account⟩
        | exact ⟨rfl, h.externalChildNum⟩ | exact ⟨rfl, h.internalChildNum⟩
  have l3 : asc "},\"hdPath\":{" = 125 :: asc ",\"hdPath\":{" := by decide
  have l4 : asc "}}" = [125, 125] := by decide
  have hm1 := fun t => parseMembers_render cryptoSpec (cryptoVals k) true t rfl specs_noConfusion.1 hc
  have hm2 := fun t => parseMembers_render hdSpec (hdVals k) true t rfl specs_noConfusion.2 hh
  have e : render k = asc "{\"remarks\":" ++ (jstr k.remarks ++ (asc ",\"crypto\":{" ++
      (renderMembers (cryptoSpec.zip (cryptoVals k)) true ++ 125 :: (asc ",\"hdPath\":{" ++
        (renderMembers (hdSpec.zip (hdVals k)) true ++ 125 :: [125]))))) := by
    simp only [render, l3, l4, List.append_assoc, List.cons_append]
  rw [e]
  simp only [parseKeystore, readLit_append, readStr_jstr _ _ h.remarks, hm1, bind, Option.bind]
  have r3 : readLit (asc "},\"hdPath\":{") (125 :: (asc ",\"hdPath\":{" ++
      (renderMembers (hdSpec.zip (hdVals k)) true ++ 125 :: [125]))) =
      some (renderMembers (hdSpec.zip (hdVals k)) true ++ 125 :: [125]) := by
    rw [l3, ← List.cons_append]; exact readLit_append _ _
  have r4 : readLit (asc "}}") (125 :: [125]) = some [] := by rw [l4]; exact readLit_append [125, 125] []
  simp only [r3, hm2, r4]
  rfl

/-- two keystore values with the same exported text are the same value -/
theorem render_injective (k k' : KeystoreJ) (h : KsOk k) (h' : KsOk k') (e : render k = render k') : k = k' := by
  have := parseKeystore_render k h
  rw [e, parseKeystore_render k' h'] at this
  exact (Option.some.inj this).symm

/-- what `export` produces is always within the types (hex strings and the two constants are ASCII) when the remark is
    valid UTF-8: hex digits are valid UTF-8 -/
theorem utf8Ok_hexEnc (bs : Bytes) : Utf8Ok (hexEnc bs) := by
  unfold Utf8Ok
  induction bs with
  | nil => rfl
  | cons b bs ih =>
    have hb := u8_lt b
    have h1 : ∀ n, n < 16 → (hexDigit n).toNat < 128 := by decide
    have a1 := h1 (b.toNat / 16) (by omega)
    have a2 := h1 (b.toNat % 16) (by omega)
    simp only [hexEnc, List.length_cons, validUtf8, utf8Size, a1, a2, if_true, Nat.sub_self, List.drop_zero]
    exact ih

theorem u32Of_lt {bs : Bytes} {v : Nat} (h : u32Of bs = .ok v) : v ≤ 4294967295 := by
  by_cases hl : bs.length < 4
  · rw [u32Of_short bs hl] at h; cases h
  · rw [u32Of_long bs (by omega)] at h
    cases h
    have := ofLE_lt (bs.take 4)
    have hl4 : (bs.take 4).length = 4 := by simp; omega
    rw [hl4] at this
    have e : (256 : Nat) ^ 4 = 4294967296 := by decide
    omega

/-- whatever `export` returns lies within the Go types, provided the stored remark is valid UTF-8 -/
theorem exportKs_ksOk (b : Bucket) (purpose coin : Nat) (k : KeystoreJ) (hp : purpose ≤ 4294967295)
    (hc : coin ≤ 4294967295) (hr : Utf8Ok ((fetchRemark b).getD [])) (he : exportKs b purpose coin = .ok k) : KsOk k := by
  unfold exportKs at he
  simp only [bind, Except.bind, pure, Except.pure] at he
  cases hu : fetchAccountUsage b with
  | error e => simp [hu] at he
  | ok usage =>
    cases hcn : fetchChildNum b with
    | error e => simp [hu, hcn] at he
    | ok ie =>
      cases hm : fetchMasterKeyParams b with
      | error e => simp [hu, hcn, hm] at he
      | ok mp =>
        cases hk : fetchCryptoKeys b with
        | error e => simp [hu, hcn, hm, hk] at he
        | ok ck =>
          simp only [hu, hcn, hm, hk, Except.ok.injEq] at he
          subst he
          have husage : usage ≤ 4294967295 := by
            unfold fetchAccountUsage fetchU32 at hu
            cases hg : bget b (key MW.Gen.KsCodec.accountUsageName) with
            | none => simp [hg] at hu
            | some v => rw [hg] at hu; exact u32Of_lt hu
          have hie : ie.1 ≤ 4294967295 ∧ ie.2 ≤ 4294967295 := by
            unfold fetchChildNum at hcn
            cases h1 : bget b (key MW.Gen.KsCodec.externalChildNumName) with
            | none => simp [h1] at hcn
            | some ex =>
              cases h2 : bget b (key MW.Gen.KsCodec.internalChildNumName) with
              | none => simp [h1, h2] at hcn
              | some inn =>
                simp only [h1, h2, bind, Except.bind, pure, Except.pure] at hcn
                cases hi : u32Of inn with
                | error e => simp [hi] at hcn
                | ok i =>
                  cases hx : u32Of ex with
                  | error e => simp [hi, hx] at hcn
                  | ok e' =>
                    simp only [hi, hx, Except.ok.injEq] at hcn
                    subst hcn
                    exact ⟨u32Of_lt hi, u32Of_lt hx⟩
          have hver : fetchVersion b ≤ 255 := by
            unfold fetchVersion
            split
            · rename_i x _ _; have := u8_lt x; omega
            · omega
          have c1 : Utf8Ok (asc MW.Gen.KsCodec.exportCipher) := by unfold Utf8Ok; decide
          have c2 : Utf8Ok (asc MW.Gen.KsCodec.exportKDF) := by unfold Utf8Ok; decide
          have c3 : Utf8Ok [] := by unfold Utf8Ok; decide
          exact {
            remarks := hr, version := hver, cipher := c1, entropyEnc := utf8Ok_hexEnc _, kdf := c2,
            pubParams := c3, privParams := utf8Ok_hexEnc _, cryptoKeyPubEnc := c3,
            cryptoKeyPrivEnc := c3, cryptoKeyEntropyEnc := utf8Ok_hexEnc _, purpose := hp, coin := hc,
            account := husage, externalChildNum := hie.2, internalChildNum := hie.1 }

/-- end to end at the text level: the file `export` writes, read back, is the exported value – for EVERY account bucket
    whose remark is valid UTF-8 -/
theorem export_text_roundtrip (b : Bucket) (purpose coin : Nat) (k : KeystoreJ) (hp : purpose ≤ 4294967295)
    (hc : coin ≤ 4294967295) (hr : Utf8Ok ((fetchRemark b).getD [])) (he : exportKs b purpose coin = .ok k) :
    parseKeystore (render k) = some k :=
  parseKeystore_render k (exportKs_ksOk b purpose coin k hp hc hr he)

end MW.KsCodecL
