/-
  C07 stage 2, reorganisations, single restored keystore — disconnecting the tip block while the instance's only
  wallet is being restored.  Above the cursor nothing is recorded for the block (nobody is ready): `rollback` finds no
  block record and only the synced-to table shrinks.  AT the cursor (the rescan had caught up with the tip, or an
  earlier disconnect pulled the cursor back to it) the store holds the books of the whole stored chain and C01's
  rollback proof applies — `rollbackBlockAt_tip` is parametric in the list of wallets whose balances are tracked, and
  Rollback works on ALL balances whatever the wallets' status — after which `disconnectBlock` pulls the cursor back
  to the new tip.
-/
import MW.Lemmas.ImportReorg
import MW.Lemmas.ImportExt
import MW.Lemmas.LedgerDisc2
namespace MW.Lemmas.ImportReorg
open MW MW.Model.Ledger MW.Model.Import MW.Spec.Chain MW.Spec.Books MW.Lemmas.Ledger MW.Lemmas.ImportExact

/-- `rollback_tip` of C01 for an arbitrary list `ready` of wallets whose balances the store holds correctly (Rollback
    reads and writes ALL balances; it never asks whether a wallet is ready) -/
theorem rollback_tipR {c : Ctx} {s : Store} {chain : List Block} {b : Block} {ready : List Wid}
    (hA : AgreeM s (bookOf c.p c.own (chain ++ [b])))
    (hbal : ∀ w, ready.contains w = true → AMap.get s.balance w = some (totalU (bookOf c.p c.own (chain ++ [b])).L w))
    (hst : s.syncedTo = b.height)
    (hV : ChainValid c.own (chain ++ [b])) (hH : HeightsOK (chain ++ [b]))
    (hk : AMap.get c.node.known b.id = some b) (hAR : AllReady c.own ready) :
    ∃ s1, rollback c s b.height = .ok s1 ∧ AgreeM s1 (bookOf c.p c.own chain) ∧
      (∀ w, ready.contains w = true →
        AMap.get s1.balance w = some (totalU (bookOf c.p c.own chain).L w)) ∧
      s1.sync = s.sync ∧ s1.syncedTo = s.syncedTo ∧ s1.status = s.status := by
  have hbh : b.height = chain.length := heightsOK_mid hH
  have hhs : (List.range (s.syncedTo + 1 - b.height)).map (fun k => s.syncedTo - k) = [b.height] := by
    rw [hst, show b.height + 1 - b.height = 1 by omega]
    simp [List.range_succ]
  obtain ⟨acc', hrun, hR', hB', hS', hH'⟩ :=
    rollbackBlockAt_tip hAR hV hH hk { s := s, bals := s.balance } hA.toR (hA.blocks b.height)
      (fun w hw => hbal w hw)
  have hblocks0 : (bookOf c.p c.own chain).blocks b.height = none :=
    bookOf_blocks_none c.p c.own chain (heightsOK_prefix hH) b.height (by omega)
  -- the store after the block records of the rolled-back heights are erased
  have herase : ∃ s2, s2 = acc'.heights.foldl (fun s h => { s with blocks := AMap.erase s.blocks h }) acc'.s ∧
      AgreeM s2 (bookOf c.p c.own chain) ∧ s2.sync = s.sync ∧ s2.syncedTo = s.syncedTo ∧ s2.status = s.status ∧
      s2.balance = s.balance := by
    refine ⟨_, rfl, ?_⟩
    have hbl : ∀ k, k ≠ b.height → AMap.get s.blocks k = (bookOf c.p c.own chain).blocks k := by
      intro k hk'
      rw [hA.blocks, bookOf_blocks_snoc_ne c.p c.own chain b k hk']
    rcases hH' with ⟨hH', hnone⟩ | hH'
    · -- no block record at this height
      rw [hH']
      simp only [List.foldl_nil]
      refine ⟨⟨hR'.unspent, hR'.credits, hR'.debits, hR'.game, hR'.txrecs, ?_⟩,
        hS'.sync, hS'.syncedTo, hS'.status, hS'.balance⟩
      intro k
      rw [hS'.blocks]
      by_cases hk' : k = b.height
      · subst hk'; rw [hblocks0]; exact hnone
      · exact hbl k hk'
    · rw [hH']
      simp only [List.nil_append, List.foldl_cons, List.foldl_nil]
      refine ⟨⟨hR'.unspent, hR'.credits, hR'.debits, hR'.game, hR'.txrecs, ?_⟩,
        hS'.sync, hS'.syncedTo, hS'.status, hS'.balance⟩
      intro k
      simp only
      rw [AMap.get_erase, hS'.blocks]
      by_cases hk' : b.height = k
      · subst hk'; simp only [if_true]; exact hblocks0.symm
      · simp only [hk', if_false]; exact hbl k (fun e => hk' e.symm)
  obtain ⟨s2, hs2, hM2, hsy2, hst2, hstat2, hbal2⟩ := herase
  -- the coinbase purge only touches pending buckets
  have hME : MinedEq s2 (acc'.cb.foldl (purgeSpenders c.own) s2) :=
    minedEq_foldl _ _ _ (fun s a _ => minedEq_purgeSpenders c.own s a)
  refine ⟨{ acc'.cb.foldl (purgeSpenders c.own) s2 with
            balance := mergeBalances acc'.bals (acc'.cb.foldl (purgeSpenders c.own) s2).balance }, ?_, ?_, ?_, ?_, ?_, ?_⟩
  · unfold rollback
    rw [hhs]
    simp only [List.foldlM_cons, List.foldlM_nil]
    rw [hrun]
    subst hs2
    rfl
  · refine ⟨?_, ?_, ?_, ?_, ?_, ?_⟩
    · intro w tx idx; simp only; rw [hME.unspent]; exact hM2.unspent w tx idx
    · intro k; simp only; rw [hME.credits]; exact hM2.credits k
    · intro k; simp only; rw [hME.debits]; exact hM2.debits k
    · intro k; simp only; rw [hME.game]; exact hM2.game k
    · intro k; simp only; rw [hME.txrecs]; exact hM2.txrecs k
    · intro k; simp only; rw [hME.blocks]; exact hM2.blocks k
  · intro w hw
    simp only
    rw [get_mergeBalances, hB' w hw]
  · simp only; rw [hME.sync, hsy2]
  · simp only; rw [hME.syncedTo, hst2]
  · simp only; rw [hME.status, hstat2]


-- ------------------------------------------------------------------ disconnectBlock after a successful Rollback

/-- the part of `disconnectBlock` after `Rollback`: the synced-to table loses the tip, the cursors are pulled back -/
theorem disconnect_tail {c : Ctx} {s s1 : Store} {h : Nat} (h0 : h ≠ 0) (hst : s.syncedTo = h)
    (hrun : rollback c s h = .ok s1) (hst1 : s1.syncedTo = s.syncedTo) :
    disconnectBlock c s h = .ok { s1 with sync := AMap.erase s1.sync h, syncedTo := h - 1,
                                          status := s1.status.map (pullBack (h - 1)) } := by
  have hnot : ¬ h > s.syncedTo := by omega
  have hreset := resetSyncedTo_one s1 h h0 (hst1.trans hst)
  unfold disconnectBlock
  simp only [h0, if_false, hnot]
  rw [hrun, M_ok_bind, hreset]
  rfl

theorem pullBack_get (status : AMap.T Wid WStatus) (n : Nat) (w : Wid) :
    AMap.get (status.map (pullBack n)) w = (AMap.get status w).map (fun st =>
      match st.synced with
      | some h => if h > n then { st with synced := some n } else st
      | none => st) := by
  rw [get_map_entries _ _ (pullBack_key n)]
  cases AMap.get status w with
  | none => rfl
  | some st =>
    simp only [Option.map_some]
    unfold pullBack
    cases st.synced with
    | none => rfl
    | some h => dsimp only; split <;> rfl

theorem sync_erase_tip {s : Store} {chain : List Block} {b : Block} (hbh : b.height = chain.length)
    (hsync : ∀ h, AMap.get s.sync h = syncOf (chain ++ [b]) h) (h' : Nat) :
    AMap.get (AMap.erase s.sync b.height) h' = syncOf chain h' := by
  rw [AMap.get_erase, hsync, syncOf_snoc, hbh]
  by_cases hk' : chain.length = h'
  · subst hk'; simp only [if_true]; exact (syncOf_ge (Nat.le_refl _)).symm
  · simp only [hk', if_false]

-- ------------------------------------------------------------------ the scan invariant for an explicit stored chain

/-- `Scan` with the follower's stored chain `S` made explicit (during a reorganisation it is not the node's) -/
structure ScanS (c : Ctx) (w : Wid) (s : Store) (S : List Block) (k : Nat) : Prop where
  agree : AgreeM s (bookOf c.p c.own (S.take (k + 1)))
  bal : AMap.get s.balance w = some (totalU (bookOf c.p c.own (S.take (k + 1))).L w)
  sync : ∀ h, AMap.get s.sync h = syncOf S h
  syncedTo : s.syncedTo + 1 = S.length
  wf : KeysNodup s.unspent

theorem scanS_of_scan {c : Ctx} {w : Wid} {s : Store} {k : Nat} (h : Scan c w s k) : ScanS c w s c.node.chain k :=
  ⟨h.agree, h.bal, h.sync, h.syncedTo, h.wf⟩

theorem scan_of_scanS {c : Ctx} {w : Wid} {s : Store} {k : Nat} (h : ScanS c w s c.node.chain k) : Scan c w s k :=
  ⟨h.agree, h.bal, h.sync, h.syncedTo, h.wf⟩

/-- **disconnecting the tip block while the only keystore is being restored** (above the cursor: nothing to undo; at
    the cursor: C01's rollback, and the cursor is pulled back to the new tip) -/
theorem disconnect_scanS {c : Ctx} {w : Wid} (hAR : AllReady c.own [w]) {s : Store} {chain : List Block} {b : Block}
    {k : Nat} {ws : WStatus} (hV : ChainValid c.own (chain ++ [b])) (hH : HeightsOK (chain ++ [b])) (hne : chain ≠ [])
    (hkn : AMap.get c.node.known b.id = some b) (hS : ScanS c w s (chain ++ [b]) k)
    (hst : AMap.get s.status w = some ws) (hk : ws.synced = some k) (hle : k + 1 ≤ (chain ++ [b]).length) :
    ∃ s', disconnectBlock c s b.height = .ok s' ∧ ScanS c w s' chain (min k (chain.length - 1)) ∧
      AMap.get s'.status w = some { ws with synced := some (min k (chain.length - 1)) } := by
  have hbh : b.height = chain.length := heightsOK_mid hH
  have hlen : chain.length ≠ 0 := fun h => hne (List.eq_nil_of_length_eq_zero h)
  have h0 : b.height ≠ 0 := by omega
  have hsto : s.syncedTo = b.height := by
    have := hS.syncedTo
    simp only [List.length_append, List.length_singleton] at this
    omega
  simp only [List.length_append, List.length_singleton] at hle
  -- the store after Rollback, in both cases
  have hroll : ∃ s1, rollback c s b.height = .ok s1 ∧
      AgreeM s1 (bookOf c.p c.own (chain.take (min k (chain.length - 1) + 1))) ∧
      AMap.get s1.balance w = some (totalU (bookOf c.p c.own (chain.take (min k (chain.length - 1) + 1))).L w) ∧
      s1.sync = s.sync ∧ s1.syncedTo = s.syncedTo ∧ s1.status = s.status := by
    by_cases hkh : k + 1 ≤ chain.length
    · -- above the cursor
      have hmin : min k (chain.length - 1) = k := by omega
      rw [hmin]
      have htake : (chain ++ [b]).take (k + 1) = chain.take (k + 1) := List.take_append_of_le_length hkh
      have hA := hS.agree
      have hB := hS.bal
      rw [htake] at hA hB
      have hnoblk : AMap.get s.blocks b.height = none := by
        rw [hA.blocks]
        apply bookOf_blocks_height (n := k + 1)
        · intro b' hb'
          have hH0 : HeightsOK (chain.take (k + 1) ++ chain.drop (k + 1)) := by
            rw [List.take_append_drop]; exact heightsOK_prefix hH
          have := heightsOK_lt hH0 b' hb'
          have hl : (chain.take (k + 1)).length ≤ k + 1 := by rw [List.length_take]; exact Nat.min_le_left _ _
          omega
        · omega
      have hhs : (List.range (s.syncedTo + 1 - b.height)).map (fun k => s.syncedTo - k) = [b.height] := by
        rw [hsto, show b.height + 1 - b.height = 1 by omega]
        simp [List.range_succ]
      refine ⟨{ s with balance := mergeBalances s.balance s.balance }, ?_,
        ⟨hA.unspent, hA.credits, hA.debits, hA.game, hA.txrecs, hA.blocks⟩, ?_, rfl, rfl, rfl⟩
      · unfold rollback
        rw [hhs]
        simp only [List.foldlM_cons, List.foldlM_nil]
        rw [rollbackBlockAt_eq]
        simp only [hnoblk]
        rfl
      · show AMap.get (mergeBalances s.balance s.balance) w = _
        rw [get_mergeBalances, hB]
    · -- at the cursor: the store holds the books of the whole stored chain
      have hkeq : k = chain.length := by omega
      have hmin : min k (chain.length - 1) + 1 = chain.length := by omega
      rw [hmin, List.take_length]
      have htake : (chain ++ [b]).take (k + 1) = chain ++ [b] := by
        apply List.take_of_length_le
        simp only [List.length_append, List.length_singleton]; omega
      have hA := hS.agree
      have hB := hS.bal
      rw [htake] at hA hB
      obtain ⟨s1, hrun, hA1, hbal1, hsy1, hst1, hstat1⟩ := rollback_tipR (ready := [w]) hA
        (by intro w' hw'; have : w' = w := by simpa using hw'
            rw [this]; exact hB) hsto hV hH hkn hAR
      exact ⟨s1, hrun, hA1, hbal1 w (by simp), hsy1, hst1, hstat1⟩
  obtain ⟨s1, hrun, hA1, hB1, hsy1, hst1, hstat1⟩ := hroll
  have hd := disconnect_tail h0 hsto hrun hst1
  refine ⟨_, hd, ?_, ?_⟩
  · refine ⟨⟨hA1.unspent, hA1.credits, hA1.debits, hA1.game, hA1.txrecs, hA1.blocks⟩, hB1, ?_, ?_, ?_⟩
    · intro h'
      show AMap.get (AMap.erase s1.sync b.height) h' = _
      rw [hsy1]; exact sync_erase_tip hbh hS.sync h'
    · show b.height - 1 + 1 = chain.length
      omega
    · have := wf_rollback hS.wf hrun
      exact this
  · show AMap.get (s1.status.map (pullBack (b.height - 1))) w = _
    rw [pullBack_get, hstat1, hst]
    simp only [Option.map_some, hk]
    by_cases hgt : k > b.height - 1
    · simp only [hgt, if_true]
      have : min k (chain.length - 1) = b.height - 1 := by omega
      rw [this]
    · simp only [hgt, if_false]
      have : min k (chain.length - 1) = k := by omega
      rw [this]
      cases ws; simp only at hk; subst hk; rfl

end MW.Lemmas.ImportReorg
