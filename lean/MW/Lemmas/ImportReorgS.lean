/-
  C07 stage 2, reorganisations, single restored keystore — disconnecting the tip block while the instance's only
  wallet is being restored.  Above the cursor nothing is recorded for the block (nobody is ready): `rollback` finds no
  block record and only the synced-to table shrinks.  AT the cursor (the rescan had caught up with the tip, or an
  earlier disconnect pulled the cursor back to it) the store holds the books of the whole stored chain and C01's
  rollback proof applies — `rollbackBlockAt_tip` is parametric in the list of wallets whose balances are tracked, and
  Rollback works on ALL balances whatever the wallets' status — after which `disconnectBlock` pulls the cursor back
  to the new tip.
-/
import MW.Lemmas.ImportReorg
import MW.Lemmas.ImportExt
import MW.Lemmas.LedgerDisc2
namespace MW.Lemmas.ImportReorg
open MW MW.Model.Ledger MW.Model.Import MW.Spec.Chain MW.Spec.Books MW.Lemmas.Ledger MW.Lemmas.ImportExact

/-- `rollback_tip` of C01 for an arbitrary list `ready` of wallets whose balances the store holds correctly (Rollback
    reads and writes ALL balances; it never asks whether a wallet is ready) -/
theorem rollback_tipR {c : Ctx} {s : Store} {chain : List Block} {b : Block} {ready : List Wid}
    (hA : AgreeM s (bookOf c.p c.own (chain ++ [b])))
    (hbal : ∀ w, ready.contains w = true → AMap.get s.balance w = some (totalU (bookOf c.p c.own (chain ++ [b])).L w))
    (hst : s.syncedTo = b.height)
    (hV : ChainValid c.own (chain ++ [b])) (hH : HeightsOK (chain ++ [b]))
    (hk : AMap.get c.node.known b.id = some b) (hAR : AllReady c.own ready) :
    ∃ s1, rollback c s b.height = .ok s1 ∧ AgreeM s1 (bookOf c.p c.own chain) ∧
      (∀ w, ready.contains w = true →
        AMap.get s1.balance w = some (totalU (bookOf c.p c.own chain).L w)) ∧
      s1.sync = s.sync ∧ s1.syncedTo = s.syncedTo ∧ s1.status = s.status := by
  have hbh : b.height = chain.length := heightsOK_mid hH
  have hhs : (List.range (s.syncedTo + 1 - b.height)).map (fun k => s.syncedTo - k) = [b.height] := by
    rw [hst, show b.height + 1 - b.height = 1 by omega]
    simp [List.range_succ]
  obtain ⟨acc', hrun, hR', hB', hS', hH'⟩ :=
    rollbackBlockAt_tip hAR hV hH hk { s := s, bals := s.balance } hA.toR (hA.blocks b.height)
      (fun w hw => hbal w hw)
  have hblocks0 : (bookOf c.p c.own chain).blocks b.height = none :=
    bookOf_blocks_none c.p c.own chain (heightsOK_prefix hH) b.height (by omega)
  -- the store after the block records of the rolled-back heights are erased
  have herase : ∃ s2, s2 = acc'.heights.foldl (fun s h => { s with blocks := AMap.erase s.blocks h }) acc'.s ∧
      AgreeM s2 (bookOf c.p c.own chain) ∧ s2.sync = s.sync ∧ s2.syncedTo = s.syncedTo ∧ s2.status = s.status ∧
      s2.balance = s.balance := by
    refine ⟨_, rfl, ?_⟩
    have hbl : ∀ k, k ≠ b.height → AMap.get s.blocks k = (bookOf c.p c.own chain).blocks k := by
      intro k hk'
      rw [hA.blocks, bookOf_blocks_snoc_ne c.p c.own chain b k hk']
    rcases hH' with ⟨hH', hnone⟩ | hH'
    · -- no block record at this height
      rw [hH']
      simp only [List.foldl_nil]
      refine ⟨⟨hR'.unspent, hR'.credits, hR'.debits, hR'.game, hR'.txrecs, ?_⟩,
        hS'.sync, hS'.syncedTo, hS'.status, hS'.balance⟩
      intro k
      rw [hS'.blocks]
      by_cases hk' : k = b.height
      · subst hk'; rw [hblocks0]; exact hnone
      · exact hbl k hk'
    · rw [hH']
      simp only [List.nil_append, List.foldl_cons, List.foldl_nil]
      refine ⟨⟨hR'.unspent, hR'.credits, hR'.debits, hR'.game, hR'.txrecs, ?_⟩,
        hS'.sync, hS'.syncedTo, hS'.status, hS'.balance⟩
      intro k
      simp only
      rw [AMap.get_erase, hS'.blocks]
      by_cases hk' : b.height = k
      · subst hk'; simp only [if_true]; exact hblocks0.symm
      · simp only [hk', if_false]; exact hbl k (fun e => hk' e.symm)
  obtain ⟨s2, hs2, hM2, hsy2, hst2, hstat2, hbal2⟩ := herase
  -- the coinbase purge only touches pending buckets
  have hME : MinedEq s2 (acc'.cb.foldl (purgeSpenders c.own) s2) :=
    minedEq_foldl _ _ _ (fun s a _ => minedEq_purgeSpenders c.own s a)
  refine ⟨{ acc'.cb.foldl (purgeSpenders c.own) s2 with
            balance := mergeBalances acc'.bals (acc'.cb.foldl (purgeSpenders c.own) s2).balance }, ?_, ?_, ?_, ?_, ?_, ?_⟩
  · unfold rollback
    rw [hhs]
    simp only [List.foldlM_cons, List.foldlM_nil]
    rw [hrun]
    subst hs2
    rfl
  · refine ⟨?_, ?_, ?_, ?_, ?_, ?_⟩
    · intro w tx idx; simp only; rw [hME.unspent]; exact hM2.unspent w tx idx
    · intro k; simp only; rw [hME.credits]; exact hM2.credits k
    · intro k; simp only; rw [hME.debits]; exact hM2.debits k
    · intro k; simp only; rw [hME.game]; exact hM2.game k
    · intro k; simp only; rw [hME.txrecs]; exact hM2.txrecs k
    · intro k; simp only; rw [hME.blocks]; exact hM2.blocks k
  · intro w hw
    simp only
    rw [get_mergeBalances, hB' w hw]
  · simp only; rw [hME.sync, hsy2]
  · simp only; rw [hME.syncedTo, hst2]
  · simp only; rw [hME.status, hstat2]


-- ------------------------------------------------------------------ disconnectBlock after a successful Rollback

/-- the part of `disconnectBlock` after `Rollback`: the synced-to table loses the tip, the cursors are pulled back -/
theorem disconnect_tail {c : Ctx} {s s1 : Store} {h : Nat} (h0 : h ≠ 0) (hst : s.syncedTo = h)
    (hrun : rollback c s h = .ok s1) (hst1 : s1.syncedTo = s.syncedTo) :
    disconnectBlock c s h = .ok { s1 with sync := AMap.erase s1.sync h, syncedTo := h - 1,
                                          status := s1.status.map (pullBack (h - 1)) } := by
  have hnot : ¬ h > s.syncedTo := by omega
  have hreset := resetSyncedTo_one s1 h h0 (hst1.trans hst)
  unfold disconnectBlock
  simp only [h0, if_false, hnot]
  rw [hrun, M_ok_bind, hreset]
  rfl

/-- `disconnect_tail` as a list of facts about the resulting store -/
theorem disconnect_tail' {c : Ctx} {s s1 : Store} {h : Nat} (h0 : h ≠ 0) (hst : s.syncedTo = h)
    (hrun : rollback c s h = .ok s1) (hst1 : s1.syncedTo = s.syncedTo) :
    ∃ s', disconnectBlock c s h = .ok s' ∧ s'.unspent = s1.unspent ∧ s'.credits = s1.credits ∧ s'.debits = s1.debits ∧
      s'.game = s1.game ∧ s'.txrecs = s1.txrecs ∧ s'.blocks = s1.blocks ∧ s'.balance = s1.balance ∧
      s'.sync = AMap.erase s1.sync h ∧ s'.syncedTo = h - 1 ∧ s'.status = s1.status.map (pullBack (h - 1)) ∧
      (∀ l, readyWallets s' l = readyWallets s1 l) :=
  ⟨_, disconnect_tail h0 hst hrun hst1, rfl, rfl, rfl, rfl, rfl, rfl, rfl, rfl, rfl, rfl,
    fun l => readyWallets_map { s1 with sync := AMap.erase s1.sync h, syncedTo := h - 1 } (h - 1) l⟩

theorem pullBack_get (status : AMap.T Wid WStatus) (n : Nat) (w : Wid) :
    AMap.get (status.map (pullBack n)) w = (AMap.get status w).map (fun st =>
      match st.synced with
      | some h => if h > n then { st with synced := some n } else st
      | none => st) := by
  rw [get_map_entries _ _ (pullBack_key n)]
  cases AMap.get status w with
  | none => rfl
  | some st =>
    simp only [Option.map_some]
    unfold pullBack
    cases st.synced with
    | none => rfl
    | some h => dsimp only; split <;> rfl

theorem sync_erase_tip {s : Store} {chain : List Block} {b : Block} (hbh : b.height = chain.length)
    (hsync : ∀ h, AMap.get s.sync h = syncOf (chain ++ [b]) h) (h' : Nat) :
    AMap.get (AMap.erase s.sync b.height) h' = syncOf chain h' := by
  rw [AMap.get_erase, hsync, syncOf_snoc, hbh]
  by_cases hk' : chain.length = h'
  · subst hk'; simp only [if_true]; exact (syncOf_ge (Nat.le_refl _)).symm
  · simp only [hk', if_false]

-- ------------------------------------------------------------------ the scan invariant for an explicit stored chain

/-- `Scan` with the follower's stored chain `S` made explicit (during a reorganisation it is not the node's) -/
structure ScanS (c : Ctx) (w : Wid) (s : Store) (S : List Block) (k : Nat) : Prop where
  agree : AgreeM s (bookOf c.p c.own (S.take (k + 1)))
  bal : AMap.get s.balance w = some (totalU (bookOf c.p c.own (S.take (k + 1))).L w)
  sync : ∀ h, AMap.get s.sync h = syncOf S h
  syncedTo : s.syncedTo + 1 = S.length
  wf : KeysNodup s.unspent

theorem scanS_of_scan {c : Ctx} {w : Wid} {s : Store} {k : Nat} (h : Scan c w s k) : ScanS c w s c.node.chain k :=
  ⟨h.agree, h.bal, h.sync, h.syncedTo, h.wf⟩

theorem scan_of_scanS {c : Ctx} {w : Wid} {s : Store} {k : Nat} (h : ScanS c w s c.node.chain k) : Scan c w s k :=
  ⟨h.agree, h.bal, h.sync, h.syncedTo, h.wf⟩

/-- **disconnecting the tip block while the only keystore is being restored** (above the cursor: nothing to undo; at
    the cursor: C01's rollback, and the cursor is pulled back to the new tip) -/
theorem disconnect_scanS {c : Ctx} {w : Wid} (hAR : AllReady c.own [w]) {s : Store} {chain : List Block} {b : Block}
    {k : Nat} {ws : WStatus} (hV : ChainValid c.own (chain ++ [b])) (hH : HeightsOK (chain ++ [b])) (hne : chain ≠ [])
    (hkn : AMap.get c.node.known b.id = some b) (hS : ScanS c w s (chain ++ [b]) k)
    (hst : AMap.get s.status w = some ws) (hk : ws.synced = some k) (hle : k + 1 ≤ (chain ++ [b]).length) :
    ∃ s', disconnectBlock c s b.height = .ok s' ∧ ScanS c w s' chain (min k (chain.length - 1)) ∧
      AMap.get s'.status w = some { ws with synced := some (min k (chain.length - 1)) } := by
  have hbh : b.height = chain.length := heightsOK_mid hH
  have hlen : chain.length ≠ 0 := fun h => hne (List.eq_nil_of_length_eq_zero h)
  have h0 : b.height ≠ 0 := by omega
  have hsto : s.syncedTo = b.height := by
    have := hS.syncedTo
    simp only [List.length_append, List.length_singleton] at this
    omega
  simp only [List.length_append, List.length_singleton] at hle
  -- the store after Rollback, in both cases
  have hroll : ∃ s1, rollback c s b.height = .ok s1 ∧
      AgreeM s1 (bookOf c.p c.own (chain.take (min k (chain.length - 1) + 1))) ∧
      AMap.get s1.balance w = some (totalU (bookOf c.p c.own (chain.take (min k (chain.length - 1) + 1))).L w) ∧
      s1.sync = s.sync ∧ s1.syncedTo = s.syncedTo ∧ s1.status = s.status := by
    by_cases hkh : k + 1 ≤ chain.length
    · -- above the cursor
      have hmin : min k (chain.length - 1) = k := by omega
      rw [hmin]
      have htake : (chain ++ [b]).take (k + 1) = chain.take (k + 1) := List.take_append_of_le_length hkh
      have hA := hS.agree
      have hB := hS.bal
      rw [htake] at hA hB
      have hnoblk : AMap.get s.blocks b.height = none := by
        rw [hA.blocks]
        apply bookOf_blocks_height (n := k + 1)
        · intro b' hb'
          have hH0 : HeightsOK (chain.take (k + 1) ++ chain.drop (k + 1)) := by
            rw [List.take_append_drop]; exact heightsOK_prefix hH
          have := heightsOK_lt hH0 b' hb'
          have hl : (chain.take (k + 1)).length ≤ k + 1 := by rw [List.length_take]; exact Nat.min_le_left _ _
          omega
        · omega
      have hhs : (List.range (s.syncedTo + 1 - b.height)).map (fun k => s.syncedTo - k) = [b.height] := by
        rw [hsto, show b.height + 1 - b.height = 1 by omega]
        simp [List.range_succ]
      refine ⟨{ s with balance := mergeBalances s.balance s.balance }, ?_,
        ⟨hA.unspent, hA.credits, hA.debits, hA.game, hA.txrecs, hA.blocks⟩, ?_, rfl, rfl, rfl⟩
      · unfold rollback
        rw [hhs]
        simp only [List.foldlM_cons, List.foldlM_nil]
        rw [rollbackBlockAt_eq]
        simp only [hnoblk]
        rfl
      · show AMap.get (mergeBalances s.balance s.balance) w = _
        rw [get_mergeBalances, hB]
    · -- at the cursor: the store holds the books of the whole stored chain
      have hkeq : k = chain.length := by omega
      have hmin : min k (chain.length - 1) + 1 = chain.length := by omega
      rw [hmin, List.take_length]
      have htake : (chain ++ [b]).take (k + 1) = chain ++ [b] := by
        apply List.take_of_length_le
        simp only [List.length_append, List.length_singleton]; omega
      have hA := hS.agree
      have hB := hS.bal
      rw [htake] at hA hB
      obtain ⟨s1, hrun, hA1, hbal1, hsy1, hst1, hstat1⟩ := rollback_tipR (ready := [w]) hA
        (by intro w' hw'; have : w' = w := by simpa using hw'
            rw [this]; exact hB) hsto hV hH hkn hAR
      exact ⟨s1, hrun, hA1, hbal1 w (by simp), hsy1, hst1, hstat1⟩
  obtain ⟨s1, hrun, hA1, hB1, hsy1, hst1, hstat1⟩ := hroll
  have hd := disconnect_tail h0 hsto hrun hst1
  refine ⟨_, hd, ?_, ?_⟩
  · refine ⟨⟨hA1.unspent, hA1.credits, hA1.debits, hA1.game, hA1.txrecs, hA1.blocks⟩, hB1, ?_, ?_, ?_⟩
    · intro h'
      show AMap.get (AMap.erase s1.sync b.height) h' = _
      rw [hsy1]; exact sync_erase_tip hbh hS.sync h'
    · show b.height - 1 + 1 = chain.length
      omega
    · have := wf_rollback hS.wf hrun
      exact this
  · show AMap.get (s1.status.map (pullBack (b.height - 1))) w = _
    rw [pullBack_get, hstat1, hst]
    simp only [Option.map_some, hk]
    by_cases hgt : k > b.height - 1
    · simp only [hgt, if_true]
      have : min k (chain.length - 1) = b.height - 1 := by omega
      rw [this]
    · simp only [hgt, if_false]
      have : min k (chain.length - 1) = k := by omega
      rw [this]
      cases ws; simp only at hk; subst hk; rfl

-- ------------------------------------------------------------------ the store invariant of a single-keystore instance

/-- "store `s` follows chain `X`" in an instance whose only keystore is `w`: either `w` is importing and the store
    holds the books of `X` up to its cursor, or `w` is ready and C01's invariant holds -/
def IS (c : Ctx) (w : Wid) (s : Store) (X : List Block) : Prop :=
  (∃ ws k, AMap.get s.status w = some ws ∧ ws.synced = some k ∧ ws.removed = false ∧ k + 1 ≤ X.length ∧
      ScanS c w s X k) ∨
  (AMap.get s.status w = some ⟨none, false⟩ ∧ Inv c s X ∧ KeysNodup s.unspent)

theorem is_sync {c : Ctx} {w : Wid} {s : Store} {X : List Block} (h : IS c w s X) :
    ∀ h', AMap.get s.sync h' = syncOf X h' := by
  rcases h with ⟨_, _, _, _, _, _, hS⟩ | ⟨_, hI, _⟩
  · exact hS.sync
  · exact hI.sync

theorem status_of_ready {s : Store} {w : Wid} (h : (readyWallets s [w]).contains w = true) :
    AMap.get s.status w = some ⟨none, false⟩ := by
  unfold readyWallets at h
  rw [List.contains_iff_mem, List.mem_filter] at h
  have := h.2
  cases hg : AMap.get s.status w with
  | none => rw [hg] at this; cases this
  | some st =>
    rw [hg] at this
    obtain ⟨sy, rm⟩ := st
    simp only [Bool.and_eq_true, Option.isNone_iff_eq_none, Bool.not_eq_true'] at this
    obtain ⟨h1, h2⟩ := this
    subst h1 h2
    rfl

/-- **disconnecting the tip block** re-establishes the invariant for the chain without it -/
theorem is_disc {c : Ctx} {w : Wid} (hAR : AllReady c.own [w]) (hws : c.wallets = [w]) {S : List Block}
    (hgS : GoodChain S) (hvS : ChainValid c.own S) (hkn : ∀ x ∈ S, AMap.get c.node.known x.id = some x)
    {s : Store} {k : Nat} (hk0 : 0 < k) (hkl : k < S.length) (hI : IS c w s (S.take (k + 1))) :
    ∃ s', disconnectBlock c s k = .ok s' ∧ IS c w s' (S.take k) := by
  have hx : S[k]? = some S[k] := List.getElem?_eq_getElem hkl
  have e := take_succ_of_get hx
  have hbh : S[k].height = k := hgS.height_at hx
  have hne : S.take k ≠ [] := by
    intro h0
    have := congrArg List.length h0
    rw [List.length_take, List.length_nil] at this
    omega
  have hV : ChainValid c.own (S.take k ++ [S[k]]) := by rw [← e]; exact chainValid_take hvS _
  have hH : HeightsOK (S.take k ++ [S[k]]) := by rw [← e]; exact heightsOK_take hgS.heights _
  have hknb := hkn _ (mem_of_get hx)
  have hlk : (S.take k).length = k := by rw [List.length_take]; omega
  rw [e] at hI
  rcases hI with ⟨ws, k0, hst, hk, hrm, hle, hS⟩ | ⟨hst, hI, hU⟩
  · obtain ⟨s', hd, hS', hst'⟩ := disconnect_scanS hAR hV hH hne hknb hS hst hk hle
    rw [hbh] at hd
    refine ⟨s', hd, Or.inl ⟨_, _, hst', rfl, hrm, ?_, hS'⟩⟩
    rw [hlk]; omega
  · have hrw : readyWallets s c.wallets = [w] := by rw [hws]; exact readyWallets_done hst
    obtain ⟨s', hd, hI', hr'⟩ := disconnect_sound (c := c) s (S.take k) S[k] hI hne hV hH hknb (by rw [hrw]; exact hAR)
    rw [hbh] at hd
    refine ⟨s', hd, Or.inr ⟨?_, hI', wf_disconnectBlock hU hd⟩⟩
    apply status_of_ready
    rw [hr' [w], readyWallets_done hst]; simp

/-- **connecting the next block of the node's chain** -/
theorem is_connect {c : Ctx} {w : Wid} (hAR : AllReady c.own [w]) (hws : c.wallets = [w])
    (hgN : GoodChain c.node.chain) (hvN : ChainValid c.own c.node.chain) {s : Store} {h : Nat} {b : Block}
    (hb : c.node.chain[h + 1]? = some b) (hI : IS c w s (c.node.chain.take (h + 1))) :
    ∃ s' conf, filterBlock c s (readyWallets s c.wallets) b = .ok (s', conf) ∧
      IS c w s' (c.node.chain.take (h + 2)) ∧ s'.status = s.status := by
  have hbh : b.height = h + 1 := hgN.height_at hb
  have hlt : h + 1 < c.node.chain.length := (List.getElem?_eq_some_iff.1 hb).1
  have hlen : (c.node.chain.take (h + 1)).length = h + 1 := by rw [List.length_take]; omega
  have e := take_succ_of_get hb
  rcases hI with ⟨ws, k, hst, hk, hrm, hle, hS⟩ | ⟨hst, hI, hU⟩
  · have hblk : c.node.blockAt b.height = some b := by unfold Node.blockAt; rw [hbh]; exact hb
    obtain ⟨s', hp, hsync, hsto, hsame⟩ := putSyncedTo_snoc (s := s) (chain := c.node.chain.take (h + 1)) (b := b)
      hS.sync (by omega) (by rw [hlen]; exact hbh)
    have hfb := filterBlock_noReady (c := c) hblk hp
    have hrw : readyWallets s c.wallets = [] := by rw [hws]; exact readyWallets_importing hst hk
    rw [hlen] at hle
    refine ⟨s', [], by rw [hrw]; exact hfb, Or.inl ⟨ws, k, by rw [hsame]; exact hst, hk, hrm, ?_, ?_⟩, by rw [hsame]⟩
    · rw [List.length_take]; omega
    · rw [show h + 2 = h + 1 + 1 from rfl, e]
      have htake : (c.node.chain.take (h + 1) ++ [b]).take (k + 1) = (c.node.chain.take (h + 1)).take (k + 1) :=
        List.take_append_of_le_length (by rw [hlen]; exact hle)
      have hA := hS.agree
      constructor
      · rw [htake, hsame]
        exact ⟨hA.unspent, hA.credits, hA.debits, hA.game, hA.txrecs, hA.blocks⟩
      · rw [htake, hsame]; exact hS.bal
      · exact hsync
      · exact hsto
      · rw [hsame]; exact hS.wf
  · have hrw : readyWallets s c.wallets = [w] := by rw [hws]; exact readyWallets_done hst
    have hnode : c.node.chain = c.node.chain.take (h + 1) ++ b :: c.node.chain.drop (h + 2) := by
      have : c.node.chain.drop (h + 1) = b :: c.node.chain.drop (h + 2) := by
        rw [List.drop_eq_getElem?_toList_append, hb]; rfl
      rw [← this, List.take_append_drop]
    obtain ⟨s', conf, hfb, hI2, hst2⟩ := connect_sound (c := c) (s := s) hI hnode hvN (by rw [hlen]; exact hbh)
      (by rw [hrw]; exact hAR) (by rw [hrw]; rfl)
    refine ⟨s', conf, hfb, Or.inr ⟨by rw [hst2]; exact hst, ?_, wf_filterBlock hU hfb⟩, hst2⟩
    rw [show h + 2 = h + 1 + 1 from rfl, e]; exact hI2

/-- the connect loop of `reorg` -/
theorem is_connSpec {c : Ctx} {w : Wid} (hAR : AllReady c.own [w]) (hws : c.wallets = [w])
    (hgN : GoodChain c.node.chain) (hvN : ChainValid c.own c.node.chain) :
    ConnSpec c (IS c w) (fun _ => True) := by
  have key : ∀ (d : Nat) (s : Store) (f B : Nat) (ready : List Wid) (added : List (Nat × List TxId)), B - f = d → f ≤ B →
      B < c.node.chain.length → IS c w s (c.node.chain.take (f + 1)) → ready = readyWallets s c.wallets →
      ∃ s' added', connectAll c ready ((c.node.chain.take (B + 1)).drop (f + 1)) s added = .ok (s', added') ∧
        IS c w s' (c.node.chain.take (B + 1)) := by
    intro d
    induction d with
    | zero =>
      intro s f B ready added hd hfB _ hI _
      have : f = B := by omega
      subst this
      refine ⟨s, added, ?_, hI⟩
      rw [List.drop_take]; simp [connectAll]
    | succ d ih =>
      intro s f B ready added hd hfB hBl hI hr
      have hx : c.node.chain[f + 1]? = some c.node.chain[f + 1] := List.getElem?_eq_getElem (by omega)
      rw [seg_cons hx (by omega)]
      obtain ⟨s1, conf, hfb, hI1, hst1⟩ := is_connect hAR hws hgN hvN hx hI
      obtain ⟨s2, added2, h2, hI2⟩ := ih s1 (f + 1) B ready (added ++ [(c.node.chain[f + 1].height, conf)]) (by omega)
        (by omega) hBl hI1 (by rw [hr]; exact (readyWallets_congr hst1 c.wallets).symm)
      refine ⟨s2, added2, ?_, hI2⟩
      unfold connectAll
      rw [hr, hfb]
      simp only [M_ok_bind]
      rw [← hr]
      exact h2
  intro s f B hfB hBl hI _
  obtain ⟨s', added', h1, h2⟩ := key (B - f) s f B _ [] rfl hfB hBl hI rfl
  exact ⟨s', added', h1, h2, trivial⟩

/-- **a notification for any block of the node's best chain**, whatever chain the follower stored before
    (extension, reorganisation above / at / below the cursor of the wallet being restored): the store then follows
    the node's chain up to that block -/
theorem is_processBlock {c : Ctx} {w : Wid} (hAR : AllReady c.own [w]) (hws : c.wallets = [w]) {S : List Block}
    (hgN : GoodChain c.node.chain) (hgS : GoodChain S) (hgen : S[0]? = c.node.chain[0]?)
    (hinj : IdInj (S ++ c.node.chain)) (hvN : ChainValid c.own c.node.chain) (hvS : ChainValid c.own S)
    (hkn : ∀ x ∈ S, AMap.get c.node.known x.id = some x)
    {s : Store} {v : Vol} {b : Block} (hI : IS c w s S) (hb : c.node.chain[b.height]? = some b)
    (hv : v.best = tipMeta S) (hg0 : b.height = 0 → b.prev ≠ (tipMeta S).hash) :
    ∃ s' v', processBlock c s v b = (s', v', true) ∧ IS c w s' (c.node.chain.take (b.height + 1)) ∧
      v'.best = tipMeta (c.node.chain.take (b.height + 1)) := by
  have H : RIface c S (IS c w) (fun _ => True) :=
    ⟨hgN, hgS, hgen, hinj,
     fun {s n k x} hI hk hx => by
       rw [is_sync hI, syncOf, getElem?_take_of_lt hk, hx]; rfl,
     fun {s k} hk0 hkl hI _ => by
       obtain ⟨s', h1, h2⟩ := is_disc hAR hws hgS hvS hkn hk0 hkl hI
       exact ⟨s', h1, h2, trivial⟩⟩
  obtain ⟨s', v', h1, h2, _, h4, _⟩ := processBlock_reachesI H (is_connSpec hAR hws hgN hvN) hI hb hv hg0 trivial
    (by
      intro k hS hk
      rw [hS] at hI
      have hb' : c.node.chain[k + 1]? = some b := by rw [← hk]; exact hb
      obtain ⟨s', conf, hfb, hI', _⟩ := is_connect hAR hws hgN hvN hb' hI
      exact ⟨s', conf, hfb, hI', trivial⟩)
  exact ⟨s', v', h1, h2, h4⟩

-- ------------------------------------------------------------------ histories: batches and notifications (incl. reorgs)

/-- events of stage 2 with reorganisations: a worker batch, or the node switches to the best chain `N` (an extension
    of its previous chain or another branch) and the follower is notified of `N`'s tip `b` at once -/
inductive REv
  | batch
  | notify (N : List Block) (b : Block)

def stepR (batch : Nat) (p : Params) (own : Own) (wallets : List Wid) (w : Wid) (sys : XSys) : REv → XSys
  | .batch => stepX batch p own wallets w sys .batch
  | .notify N b =>
    let node' : Node := { sys.node with chain := N }
    let r := processBlock { p := p, own := own, wallets := wallets, node := node' } sys.s sys.v b
    { node := node', s := r.1, v := r.2.1 }

/-- what is assumed of a notification: `N` is a well-formed valid chain with the stored chain's genesis, block ids
    determine blocks among the stored and the new chain, the node still has the files of the stored blocks, `b` is
    `N`'s tip (and the genesis block does not point at the stored tip) -/
def GoodR (batch : Nat) (own : Own) (sys : XSys) : REv → Prop
  | .batch => True
  | .notify N b =>
    GoodChain N ∧ sys.node.chain[0]? = N[0]? ∧ IdInj (sys.node.chain ++ N) ∧ ChainValid own N ∧
    (∀ x ∈ sys.node.chain, AMap.get sys.node.known x.id = some x) ∧ N[b.height]? = some b ∧ b.height + 1 = N.length ∧
    (b.height = 0 → b.prev ≠ (tipMeta sys.node.chain).hash) ∧ N.length + batch < 2 ^ 64

def AllGoodR (batch : Nat) (p : Params) (own : Own) (wallets : List Wid) (w : Wid) : XSys → List REv → Prop
  | _, [] => True
  | sys, e :: es => GoodR batch own sys e ∧ AllGoodR batch p own wallets w (stepR batch p own wallets w sys e) es

/-- the state invariant: the store follows the node's chain (`IS`), the follower's tip is the chain's tip -/
def RInv (batch : Nat) (p : Params) (own : Own) (wallets : List Wid) (w : Wid) (sys : XSys) : Prop :=
  IS { p := p, own := own, wallets := wallets, node := sys.node } w sys.s sys.node.chain ∧
  sys.v.best = tipMeta sys.node.chain ∧ GoodChain sys.node.chain ∧ ChainValid own sys.node.chain ∧
  sys.node.chain.length + batch < 2 ^ 64

theorem best_of_tip {chain : List Block} (hg : GoodChain chain) {v : Vol} (hv : v.best = tipMeta chain) :
    v.best.height + 1 = chain.length := by
  obtain ⟨x, _, ht⟩ := tipMeta_good hg
  have := hg.length_pos
  rw [hv, ht]
  show chain.length - 1 + 1 = chain.length
  omega

theorem stepR_inv {batch : Nat} (hb : batch > 0) {p : Params} {own : Own} {wallets : List Wid} {w : Wid}
    (hAR : AllReady own [w]) (hws : wallets = [w]) (sys : XSys) (e : REv) (hgood : GoodR batch own sys e)
    (hI : RInv batch p own wallets w sys) : RInv batch p own wallets w (stepR batch p own wallets w sys e) := by
  obtain ⟨hIS, hv, hg, hval, hnb⟩ := hI
  have hbest := best_of_tip hg hv
  cases e with
  | batch =>
    -- through the extension-only invariant `XInv`
    have hX : XInv p own wallets w sys := by
      refine ⟨hbest, ?_⟩
      rcases hIS with ⟨ws, k, hst, hk, hrm, hle, hS⟩ | ⟨hst, hI, hU⟩
      · exact Or.inl ⟨ws, k, hst, hk, hrm, by omega, scan_of_scanS hS⟩
      · exact Or.inr ⟨hst, hI, hU⟩
    have hnode : (stepX batch p own wallets w sys .batch).node = sys.node := by
      simp only [stepX]
      split
      · split <;> rfl
      · rfl
    have hX' := stepX_inv hb hAR hws sys .batch (by rw [hnode]; exact ⟨hval, hg.heights⟩) (by rw [hnode]; exact hnb) hX
    have hvb : (stepX batch p own wallets w sys .batch).v.best = sys.v.best := by
      simp only [stepX]
      split
      · rename_i k rm hst
        cases hstep : importStep batch { p := p, own := own, wallets := wallets, node := sys.node } w sys.s sys.v with
        | error e => rfl
        | ok r =>
          obtain ⟨s1, v1, fin⟩ := r
          simp only
          rcases hIS with ⟨ws, k0, hst0, hk0, hrm0, hle0, hS0⟩ | ⟨hst0, _, _⟩
          · obtain ⟨s2, v2, h1, _, _, hv1⟩ := importStep_scan hb hAR (c := { p := p, own := own, wallets := wallets, node := sys.node })
              ⟨hval, hg.heights⟩ (scan_of_scanS hS0) (by rw [hws]; simp) hst0 hk0 hbest (by omega) (by omega)
            rw [hstep] at h1
            injection h1 with h1
            injection h1 with _ h1
            injection h1 with h1 _
            rw [h1]; exact hv1
          · rw [hst0] at hst; cases hst
      · rfl
    show RInv batch p own wallets w (stepX batch p own wallets w sys .batch)
    obtain ⟨hb', hcase⟩ := hX'
    refine ⟨?_, by rw [hvb, hnode]; exact hv, by rw [hnode]; exact hg, by rw [hnode]; exact hval, by rw [hnode]; exact hnb⟩
    rw [hnode] at hb' ⊢
    rcases hcase with ⟨ws, k, hst, hk, hrm, hle, hS⟩ | ⟨hst, hI, hU⟩
    · refine Or.inl ⟨ws, k, hst, hk, hrm, by omega, ?_⟩
      have := scanS_of_scan hS
      rw [hnode] at this
      exact this
    · exact Or.inr ⟨hst, by rw [hnode] at hI; exact hI, hU⟩
  | notify N b =>
    obtain ⟨hgN, hgen, hinj, hvN, hkn, hbN, htip, hg0, hnbN⟩ := hgood
    obtain ⟨s', v', hpb, hI', hv'⟩ := is_processBlock
      (c := { p := p, own := own, wallets := wallets, node := { sys.node with chain := N } }) (w := w) (S := sys.node.chain)
      hAR hws hgN hg hgen hinj hvN hval hkn
      (by
        rcases hIS with ⟨ws, k, hst, hk, hrm, hle, hS⟩ | ⟨hst, hI, hU⟩
        · exact Or.inl ⟨ws, k, hst, hk, hrm, hle, ⟨hS.agree, hS.bal, hS.sync, hS.syncedTo, hS.wf⟩⟩
        · exact Or.inr ⟨hst, ⟨hI.agree, hI.bal, hI.sync, hI.syncedTo⟩, hU⟩)
      hbN hv hg0
    have htake : N.take (b.height + 1) = N := by rw [htip, List.take_length]
    have hstep : stepR batch p own wallets w sys (.notify N b) = { node := { sys.node with chain := N }, s := s', v := v' } := by
      simp only [stepR]
      rw [hpb]
    rw [hstep]
    rw [htake] at hI' hv'
    exact ⟨hI', hv', hgN, hvN, hnbN⟩

/-- **stage 2 with reorganisations, single keystore**: the invariant survives every history of batches and
    notifications -/
theorem foldR_inv {batch : Nat} (hb : batch > 0) {p : Params} {own : Own} {wallets : List Wid} {w : Wid}
    (hAR : AllReady own [w]) (hws : wallets = [w]) (evs : List REv) :
    ∀ (sys : XSys), AllGoodR batch p own wallets w sys evs → RInv batch p own wallets w sys →
      RInv batch p own wallets w (evs.foldl (stepR batch p own wallets w) sys) := by
  induction evs with
  | nil => intro sys _ h; exact h
  | cons e evs ih =>
    intro sys hgood hI
    rw [List.foldl_cons]
    exact ih _ hgood.2 (stepR_inv hb hAR hws sys e hgood.1 hI)

end MW.Lemmas.ImportReorg
