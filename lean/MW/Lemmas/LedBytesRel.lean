/-
  LedBytes, part 13 — the relevance computation of filterTx ON BYTES: `prevOfB` (the current block's transactions by hash,
  ExistCreditFromTx + FetchTxBySha, the pending bucket), `filterInB`, `filterOutB` (ParsePkScript's class, the keystore
  lookup by address, the ready wallets), `filterTxRelB`, `filterTxsB`, each simulating its twin in MW.Model.Ledger, and
  the `RelOracle` of LedBytesConnect obtained from a byte-level description of the node (`RelEnv`).
-/
import MW.Lemmas.LedBytesConnect
namespace MW.LedBytes
open MW MW.Gen.Codec MW.Model.TxmgrCodec MW.TxmgrCodec MW.Model.Ledger

/-- every output value of the transaction is a valid amount -/
def OutsFit (t : TxB) : Prop := ∀ o ∈ t.outs, o.amt ≤ maxAmount

/-- the environment of filterTx at byte level: the block files of the node (the transactions of a block, their
    locations), FetchTxBySha, mass-core's deserializer and the keystore (`P`), the script hash of an address -/
structure RelEnv (E : Env) (c : Ctx) where
  P : PendEnv E c.own
  dom : Block → Prop
  txsB : Block → List TxB
  txs_sim : ∀ b, dom b → b.txs = (txsB b).map (TxB.nm E.N)
  txs_wf : ∀ b, dom b → ∀ t ∈ txsB b, t.WF ∧ OutsFit t
  fetchTxB : Bytes → Option TxB
  fetch_sim : ∀ h, c.node.fetchTx (E.N.tx h) = (fetchTxB h).map (TxB.nm E.N)
  fetch_wf : ∀ h t, fetchTxB h = some t → t.WF ∧ OutsFit t
  pend_amt : ∀ ser, OutsFit (P.deserB ser)
  shOf : Bytes → Bytes
  /-- only for addresses of the keystore (for ALL addresses no `shOf` exists: finitely many 32-byte hashes) -/
  sh_wf : ∀ a x, P.ownA a = some x → (shOf a).length = 32 ∧ E.N.sh (shOf a) = E.N.adr a
  locB : Block → Nat → TxLocB
  loc_sim : ∀ b i, dom b → i < b.txs.length → (locB b i).WF = true ∧ E.loc (locB b i) = (b.id, i)

-- ------------------------------------------------------------------ the record under construction

/-- filterTx's TxRecord while it is built: the transaction, the relevance lists, the two binding flags, the location -/
structure FRecB where
  tx : TxB
  relIn : List RelB := []
  relOut : List RelB := []
  hbIn : Bool := false
  hbOut : Bool := false
  loc : TxLocB

/-- the ledger model's reading inside filterTx (no location yet) -/
def FRecB.nm0 (N : Names) (f : FRecB) : TxRec :=
  { tx := f.tx.nm N, relIn := f.relIn.map (RelB.nm N), relOut := f.relOut.map (RelB.nm N),
    hasBindingIn := f.hbIn, hasBindingOut := f.hbOut }

/-- the ledger model's reading of a finished record -/
def FRecB.nm (E : Env) (f : FRecB) : TxRec := { f.nm0 E.N with loc := E.loc f.loc }

/-- the record as AddRelevantTx consumes it -/
def FRecB.toRec (f : FRecB) : TxRecB :=
  ⟨f.tx.hash, f.tx.cb, f.tx.ins.map (fun i => ⟨i.hash, i.index⟩), f.tx.outs.length, f.relIn, f.relOut, f.loc⟩

def FRecB.pair (E : Env) (f : FRecB) : RecPair := (f.toRec, f.nm E)

structure FRecB.Good (E : Env) (f : FRecB) : Prop where
  tx : f.tx.WF
  relIn : ∀ r ∈ f.relIn, r.WF E.N
  relOut : ∀ r ∈ f.relOut, r.WF E.N
  loc : f.loc.WF = true

theorem FRecB.pair_ok {E : Env} {f : FRecB} (h : f.Good E) : (f.pair E).OK E := by
  refine ⟨⟨h.tx.hash, ?_, ?_, h.relIn, h.relOut, h.loc⟩, ⟨rfl, rfl, ?_, ?_, rfl, rfl, rfl⟩⟩
  · intro o ho
    change o ∈ f.toRec.ins at ho
    simp only [FRecB.toRec, List.mem_map] at ho
    obtain ⟨i, hi, rfl⟩ := ho
    exact outPoint_wf_mk (h.tx.ins i hi).1 (h.tx.ins i hi).2
  · exact h.tx.nOuts
  · simp only [FRecB.pair, FRecB.nm, FRecB.nm0, FRecB.toRec, TxB.nm, List.map_map]
    rfl
  · simp [FRecB.pair, FRecB.nm, FRecB.nm0, FRecB.toRec, TxB.nm]

/-- the invariant of filterTx's two loops -/
structure FRecB.Inv (E : Env) (tx : TxB) (loc : TxLocB) (f : FRecB) : Prop where
  tx : f.tx = tx
  loc : f.loc = loc
  relIn : ∀ r ∈ f.relIn, r.WF E.N
  relOut : ∀ r ∈ f.relOut, r.WF E.N

variable {E : Env} {c : Ctx}

/-- RelevantMeta + the parsed script of an owned output -/
def relOfB (RE : RelEnv E c) (cur : Nat) (o : OutB) (w : Bytes) (ch : Bool) : RelB :=
  ⟨cur, w, ch, o.amt, o.cls, o.addr, RE.shOf o.addr⟩

theorem relOfB_nm (RE : RelEnv E c) (cur : Nat) (o : OutB) (w : Bytes) (ch : Bool) :
    (relOfB RE cur o w ch).nm E.N = { index := cur, out := o.nm E.N, wallet := E.N.wal w, change := ch } := rfl

theorem relOfB_wf (RE : RelEnv E c) {cur : Nat} (hcur : cur < 256 ^ 4) {o : OutB} (ho : o.amt ≤ maxAmount) {w : Bytes}
    {ch : Bool} (hoa : RE.P.ownA o.addr = some (w, ch)) : (relOfB RE cur o w ch).WF E.N :=
  ⟨RE.P.ownA_wf _ _ hoa, ho, (RE.sh_wf o.addr _ hoa).1, hcur, (RE.sh_wf o.addr _ hoa).2⟩

-- ------------------------------------------------------------------ filterTx, the TxOut loop

def filterOutB (RE : RelEnv E c) (ready : List Bytes) (f : FRecB) (cur : Nat) (o : OutB) : FRecB :=
  if o.cls = .raw then f
  else match RE.P.ownA o.addr with
    | some (w, ch) =>
      if ready.contains w then { f with hbOut := o.cls.isBinding, relOut := f.relOut ++ [relOfB RE cur o w ch] }
      else f
    | none => f

theorem filterOut_on_bytes (RE : RelEnv E c) (ready : List Bytes) {tx : TxB} {loc : TxLocB} {f : FRecB}
    (hf : f.Inv E tx loc) {cur : Nat} (hcur : cur < 256 ^ 4) {o : OutB} (ho : o.amt ≤ maxAmount) :
    (filterOutB RE ready f cur o).nm0 E.N = filterOut c (ready.map E.N.wal) (f.nm0 E.N) cur (o.nm E.N) ∧
    (filterOutB RE ready f cur o).Inv E tx loc := by
  unfold filterOutB filterOut
  have hcls : (o.nm E.N).cls = o.cls := rfl
  have hadr : (o.nm E.N).addr = E.N.adr o.addr := rfl
  simp only [hcls, hadr, RE.P.ownA_sim]
  by_cases hr : o.cls = .raw
  · simp only [hr, if_true]; exact ⟨trivial, hf⟩
  · simp only [hr, if_false]
    cases hoa : RE.P.ownA o.addr with
    | none => exact ⟨rfl, hf⟩
    | some x =>
      obtain ⟨w, ch⟩ := x
      simp only [Option.map_some, contains_map_wal]
      by_cases hc : ready.contains w = true
      · simp only [hc, if_true]
        refine ⟨?_, hf.tx, hf.loc, hf.relIn, ?_⟩
        · simp only [FRecB.nm0, List.map_append, List.map_cons, List.map_nil, relOfB_nm]
        · intro r hr
          rcases List.mem_append.1 hr with h | h
          · exact hf.relOut r h
          · rw [List.mem_singleton.1 h]
            exact relOfB_wf RE hcur ho hoa
      · simp only [hc, Bool.false_eq_true, if_false]; exact ⟨trivial, hf⟩

-- ------------------------------------------------------------------ the previous transaction of an input

inductive PrevB | skip | found (t : TxB) | missing

def PrevB.nm (N : Names) : PrevB → Prev
  | .skip => .skip
  | .found t => .found (t.nm N)
  | .missing => .missing

/-- filterTx: recInCurBlk by hash; ExistCreditFromTx, then FetchTxBySha; the pending bucket -/
def prevOfB (RE : RelEnv E c) (bs : BStore) (mined : Bool) (inBlk : List TxB) (h : Bytes) : PrevB :=
  match (if mined then inBlk.find? (fun t => t.hash = h) else none) with
  | some t => .found t
  | none =>
    if mined && !existCreditFromTxB bs.c h then .skip
    else match RE.fetchTxB h with
      | some t => .found t
      | none => match pendTxB RE.P bs.m h with
        | some t => .found t
        | none => .missing

theorem find_by_hash (N : Names) (l : List TxB) (h : Bytes) :
    (l.map (TxB.nm N)).find? (fun t => t.id = N.tx h) = (l.find? (fun t => t.hash = h)).map (TxB.nm N) := by
  induction l with
  | nil => rfl
  | cons a l ih =>
    simp only [List.map_cons, List.find?_cons]
    have hid : (a.nm N).id = N.tx a.hash := rfl
    by_cases e : a.hash = h
    · simp [hid, e]
    · have : N.tx a.hash ≠ N.tx h := fun x => e (N.tx_inj _ _ x)
      simp only [hid, this, e, decide_false]
      exact ih

theorem pendTxB_fit (RE : RelEnv E c) {m : AMap.T Bytes Bytes} {k : Bytes} {t : TxB}
    (h : pendTxB RE.P m k = some t) : OutsFit t := by
  unfold pendTxB at h
  cases hg : AMap.get m k with
  | none => rw [hg] at h; cases h
  | some v =>
    rw [hg] at h
    simp only [Option.bind_some] at h
    cases hr : readRawUnmined v with
    | none => rw [hr] at h; cases h
    | some x =>
      rw [hr] at h
      cases h
      exact RE.pend_amt _

theorem prevOf_on_bytes (RE : RelEnv E c) {bs : BStore} (hC : CanonS E bs) (mined : Bool) {inBlk : List TxB}
    (hin : ∀ t ∈ inBlk, OutsFit t) {h : Bytes} (hh : h.length = 32) :
    prevOf c (absStore E bs) mined (inBlk.map (TxB.nm E.N)) (E.N.tx h) = (prevOfB RE bs mined inBlk h).nm E.N ∧
    ∀ t, prevOfB RE bs mined inBlk h = .found t → OutsFit t := by
  unfold prevOf prevOfB
  rw [find_by_hash, existCreditFromTx_on_bytes E hC hh, RE.fetch_sim, pendTx_on_bytes RE.P hC hh]
  have tail : (match (RE.fetchTxB h).map (TxB.nm E.N) with
        | some t => Prev.found t
        | none => match (pendTxB RE.P bs.m h).map (TxB.nm E.N) with
          | some t => Prev.found t
          | none => Prev.missing)
      = (match RE.fetchTxB h with
        | some t => PrevB.found t
        | none => match pendTxB RE.P bs.m h with
          | some t => PrevB.found t
          | none => PrevB.missing).nm E.N ∧
      ∀ t, (match RE.fetchTxB h with
        | some t => PrevB.found t
        | none => match pendTxB RE.P bs.m h with
          | some t => PrevB.found t
          | none => PrevB.missing) = .found t → OutsFit t := by
    cases hf : RE.fetchTxB h with
    | some t => exact ⟨rfl, fun t' e => by cases e; exact (RE.fetch_wf h t hf).2⟩
    | none =>
      cases hp : pendTxB RE.P bs.m h with
      | some t => exact ⟨rfl, fun t' e => by cases e; exact pendTxB_fit RE hp⟩
      | none => exact ⟨rfl, fun _ e => by cases e⟩
  cases mined with
  | false =>
    simp only [Bool.false_eq_true, if_false, Bool.false_and]
    exact tail
  | true =>
    simp only [if_true, Bool.true_and]
    cases hfd : inBlk.find? (fun t => t.hash = h) with
    | some t =>
      exact ⟨rfl, fun t' e => by cases e; exact hin t (List.mem_of_find?_eq_some hfd)⟩
    | none =>
      simp only [Option.map_none]
      by_cases hx : (!existCreditFromTxB bs.c h) = true
      · simp only [hx, if_true]
        exact ⟨rfl, fun _ e => by cases e⟩
      · simp only [hx, Bool.false_eq_true, if_false]
        exact tail

-- ------------------------------------------------------------------ filterTx, the TxIn loop

def filterInB (RE : RelEnv E c) (bs : BStore) (mined : Bool) (inBlk : List TxB) (ready : List Bytes)
    (f : FRecB) (cur : Nat) (i : InB) : M FRecB :=
  match prevOfB RE bs mined inBlk i.hash with
  | .skip => pure f
  | .missing => throw (if mined then .chainRevoked else .invalidTx)
  | .found pt =>
    match pt.outs[i.index]? with
    | none => throw .invalidTx
    | some o =>
      if o.cls = .raw then pure f
      else match RE.P.ownA o.addr with
        | some (w, ch) =>
          if ready.contains w then
            pure { f with hbIn := o.cls.isBinding, relIn := f.relIn ++ [relOfB RE cur o w ch] }
          else pure f
        | none => pure f

theorem filterIn_on_bytes (RE : RelEnv E c) {bs : BStore} (hC : CanonS E bs) (mined : Bool) {inBlk : List TxB}
    (hin : ∀ t ∈ inBlk, OutsFit t) (ready : List Bytes) {tx : TxB} {loc : TxLocB} {f : FRecB} (hf : f.Inv E tx loc)
    {cur : Nat} (hcur : cur < 256 ^ 4) {i : InB} (hi : i.hash.length = 32) :
    (filterInB RE bs mined inBlk ready f cur i).map (FRecB.nm0 E.N)
      = filterIn c (absStore E bs) mined (inBlk.map (TxB.nm E.N)) (ready.map E.N.wal) (f.nm0 E.N) cur (i.nm E.N) ∧
    ∀ f', filterInB RE bs mined inBlk ready f cur i = .ok f' → f'.Inv E tx loc := by
  unfold filterInB filterIn
  obtain ⟨p1, p2⟩ := prevOf_on_bytes RE hC mined hin hi
  have hitx : (i.nm E.N).tx = E.N.tx i.hash := rfl
  have hidx : (i.nm E.N).idx = i.index := rfl
  rw [hitx, hidx, p1]
  cases hp : prevOfB RE bs mined inBlk i.hash with
  | skip => exact ⟨rfl, fun f' e => by cases e; exact hf⟩
  | missing => exact ⟨rfl, fun f' e => by cases e⟩
  | found pt =>
    have hfit := p2 pt hp
    simp only [PrevB.nm]
    have hout : (pt.nm E.N).outs[i.index]? = (pt.outs[i.index]?).map (OutB.nm E.N) := by simp [TxB.nm]
    rw [hout]
    cases ho : pt.outs[i.index]? with
    | none => exact ⟨rfl, fun f' e => by cases e⟩
    | some o =>
      have hamt := hfit o (List.mem_of_getElem? ho)
      simp only [Option.map_some]
      have hcls : (o.nm E.N).cls = o.cls := rfl
      have hadr : (o.nm E.N).addr = E.N.adr o.addr := rfl
      simp only [hcls, hadr, RE.P.ownA_sim]
      by_cases hr : o.cls = .raw
      · simp only [hr, if_true]; exact ⟨rfl, fun f' e => by cases e; exact hf⟩
      · simp only [hr, if_false]
        cases hoa : RE.P.ownA o.addr with
        | none => exact ⟨rfl, fun f' e => by cases e; exact hf⟩
        | some x =>
          obtain ⟨w, ch⟩ := x
          simp only [Option.map_some, contains_map_wal]
          by_cases hc : ready.contains w = true
          · simp only [hc, if_true]
            refine ⟨?_, fun f' e => ?_⟩
            · show Except.ok _ = Except.ok _
              congr 1
              simp only [FRecB.nm0, List.map_append, List.map_cons, List.map_nil, relOfB_nm]
            · cases e
              refine ⟨hf.tx, hf.loc, ?_, hf.relOut⟩
              intro r hr
              rcases List.mem_append.1 hr with h | h
              · exact hf.relIn r h
              · rw [List.mem_singleton.1 h]
                exact relOfB_wf RE hcur hamt hoa
          · simp only [hc, Bool.false_eq_true, if_false]; exact ⟨rfl, fun f' e => by cases e; exact hf⟩

-- ------------------------------------------------------------------ filterTx

/-- simulation through a bind -/
theorem bind_simQ {α β α' β' : Type} (x : M α) (y : M α') (k : α → M β) (k' : α' → M β') (ga : α → α') (gb : β → β')
    (P : α → Prop) (Qr : β → Prop) (h1 : x.map ga = y) (h1' : ∀ a, x = .ok a → P a)
    (h2 : ∀ a, P a → (k a).map gb = k' (ga a) ∧ ∀ b, k a = .ok b → Qr b) :
    (x >>= k).map gb = (y >>= k') ∧ ∀ b, (x >>= k) = .ok b → Qr b := by
  subst h1
  cases x with
  | error e => exact ⟨rfl, fun b h => by cases h⟩
  | ok a => exact h2 a (h1' a rfl)

/-- `foldIdx_sim` with a fact about the elements -/
theorem foldIdx_simQ {α αB β βB : Type} (absF : βB → β) (P : βB → Prop) (fB : βB → Nat → αB → βB) (f : β → Nat → α → β)
    (g : αB → α) (Q : αB → Prop) (B : Nat)
    (hstep : ∀ b i a, P b → Q a → i < B → absF (fB b i a) = f (absF b) i (g a) ∧ P (fB b i a)) :
    ∀ (l : List αB) (n : Nat) (b : βB), P b → (∀ a ∈ l, Q a) → n + l.length ≤ B →
      absF (foldIdx fB l n b) = foldIdx f (l.map g) n (absF b) ∧ P (foldIdx fB l n b) := by
  intro l
  induction l with
  | nil => intro n b hb _ _; exact ⟨rfl, hb⟩
  | cons a l ih =>
    intro n b hb hq hn
    obtain ⟨h1, h2⟩ := hstep b n a hb (hq a List.mem_cons_self) (by simp at hn; omega)
    simp only [foldIdx, List.map_cons]
    rw [← h1]
    exact ih (n + 1) _ h2 (fun x hx => hq x (List.mem_cons_of_mem _ hx)) (by simp at hn; omega)

def filterTxRelB (RE : RelEnv E c) (bs : BStore) (tx : TxB) (loc : TxLocB) (mined : Bool) (inBlk : List TxB)
    (ready : List Bytes) : M (Option FRecB) := do
  let f ← if tx.cb then pure { tx := tx, loc := loc }
    else foldIdxM (filterInB RE bs mined inBlk ready) tx.ins 0 { tx := tx, loc := loc }
  let f := foldIdx (filterOutB RE ready) tx.outs 0 f
  if f.relIn.isEmpty && f.relOut.isEmpty then pure none
  else if f.hbIn && f.hbOut then throw .bothBinding
  else pure (some f)

/-- filterTx after the TxIn loop: the TxOut loop, the relevance test, the binding-in-and-out test -/
theorem filterFinish_on_bytes (RE : RelEnv E c) (ready : List Bytes) {tx : TxB} (hw : tx.WF) (hfit : OutsFit tx)
    {loc : TxLocB} {f1 : FRecB} (hf1 : f1.Inv E tx loc) :
    ((if ((foldIdx (filterOutB RE ready) tx.outs 0 f1).relIn.isEmpty
          && (foldIdx (filterOutB RE ready) tx.outs 0 f1).relOut.isEmpty) = true then pure none
      else if ((foldIdx (filterOutB RE ready) tx.outs 0 f1).hbIn
          && (foldIdx (filterOutB RE ready) tx.outs 0 f1).hbOut) = true then throw Err.bothBinding
      else pure (some (foldIdx (filterOutB RE ready) tx.outs 0 f1)) : M (Option FRecB)).map
        (fun r => r.map (FRecB.nm0 E.N))
      = (if ((foldIdx (filterOut c (ready.map E.N.wal)) (tx.outs.map (OutB.nm E.N)) 0 (f1.nm0 E.N)).relIn.isEmpty
          && (foldIdx (filterOut c (ready.map E.N.wal)) (tx.outs.map (OutB.nm E.N)) 0 (f1.nm0 E.N)).relOut.isEmpty) = true
          then pure none
        else if ((foldIdx (filterOut c (ready.map E.N.wal)) (tx.outs.map (OutB.nm E.N)) 0 (f1.nm0 E.N)).hasBindingIn
          && (foldIdx (filterOut c (ready.map E.N.wal)) (tx.outs.map (OutB.nm E.N)) 0 (f1.nm0 E.N)).hasBindingOut) = true
          then throw Err.bothBinding
        else pure (some (foldIdx (filterOut c (ready.map E.N.wal)) (tx.outs.map (OutB.nm E.N)) 0 (f1.nm0 E.N))))) ∧
    ∀ r, (if ((foldIdx (filterOutB RE ready) tx.outs 0 f1).relIn.isEmpty
          && (foldIdx (filterOutB RE ready) tx.outs 0 f1).relOut.isEmpty) = true then pure none
      else if ((foldIdx (filterOutB RE ready) tx.outs 0 f1).hbIn
          && (foldIdx (filterOutB RE ready) tx.outs 0 f1).hbOut) = true then throw Err.bothBinding
      else pure (some (foldIdx (filterOutB RE ready) tx.outs 0 f1)) : M (Option FRecB)) = .ok r →
      ∀ f, r = some f → f.Inv E tx loc := by
  obtain ⟨o1, o2⟩ := foldIdx_simQ (FRecB.nm0 E.N) (FRecB.Inv E tx loc) (filterOutB RE ready)
    (filterOut c (ready.map E.N.wal)) (OutB.nm E.N) (fun o => o.amt ≤ maxAmount) (256 ^ 4)
    (fun b i a hb ha hi => filterOut_on_bytes RE ready hb hi ha)
    tx.outs 0 f1 hf1 hfit (by simpa using hw.nOuts)
  rw [← o1]
  generalize foldIdx (filterOutB RE ready) tx.outs 0 f1 = g at o2 ⊢
  have e1 : (g.nm0 E.N).relIn.isEmpty = g.relIn.isEmpty := by simp [FRecB.nm0]
  have e2 : (g.nm0 E.N).relOut.isEmpty = g.relOut.isEmpty := by simp [FRecB.nm0]
  have e3 : (g.nm0 E.N).hasBindingIn = g.hbIn := rfl
  have e4 : (g.nm0 E.N).hasBindingOut = g.hbOut := rfl
  rw [e1, e2, e3, e4]
  by_cases c1 : (g.relIn.isEmpty && g.relOut.isEmpty) = true
  · simp only [c1, if_true]
    exact ⟨rfl, fun r e f ef => by cases e; cases ef⟩
  · simp only [c1, Bool.false_eq_true, if_false]
    by_cases c2 : (g.hbIn && g.hbOut) = true
    · simp only [c2, if_true]
      exact ⟨rfl, fun r e => by cases e⟩
    · simp only [c2, Bool.false_eq_true, if_false]
      exact ⟨rfl, fun r e f ef => by cases e; cases ef; exact o2⟩

theorem filterTxRel_on_bytes (RE : RelEnv E c) {bs : BStore} (hC : CanonS E bs) (mined : Bool) {inBlk : List TxB}
    (hin : ∀ t ∈ inBlk, OutsFit t) (ready : List Bytes) {tx : TxB} (hw : tx.WF) (hfit : OutsFit tx) (loc : TxLocB) :
    (filterTxRelB RE bs tx loc mined inBlk ready).map (fun r => r.map (FRecB.nm0 E.N))
      = filterTxRel c (absStore E bs) (tx.nm E.N) mined (inBlk.map (TxB.nm E.N)) (ready.map E.N.wal) ∧
    ∀ r, filterTxRelB RE bs tx loc mined inBlk ready = .ok r → ∀ f, r = some f → f.Inv E tx loc := by
  unfold filterTxRelB filterTxRel
  have hcb : (tx.nm E.N).cb = tx.cb := rfl
  have hins : (tx.nm E.N).ins = tx.ins.map (InB.nm E.N) := rfl
  have houts : (tx.nm E.N).outs = tx.outs.map (OutB.nm E.N) := rfl
  have h0 : ({ tx := tx.nm E.N } : TxRec) = (({ tx := tx, loc := loc } : FRecB)).nm0 E.N := rfl
  have hinv0 : FRecB.Inv E tx loc { tx := tx, loc := loc } :=
    ⟨rfl, rfl, (fun _ h => by cases h), (fun _ h => by cases h)⟩
  rw [hcb, hins, houts, h0]
  by_cases hc : tx.cb = true
  · simp only [hc, if_true]
    refine bind_simQ _ _ _ _ (FRecB.nm0 E.N) (fun r => r.map (FRecB.nm0 E.N)) (FRecB.Inv E tx loc)
      (fun r => ∀ f, r = some f → f.Inv E tx loc) rfl ?_ ?_
    · intro f e; cases e; exact hinv0
    intro f1 hf1
    exact filterFinish_on_bytes RE ready hw hfit hf1
  · simp only [hc, Bool.false_eq_true, if_false]
    obtain ⟨s1, s2⟩ := foldIdxM_sim (FRecB.nm0 E.N) (FRecB.Inv E tx loc) (filterInB RE bs mined inBlk ready)
      (filterIn c (absStore E bs) mined (inBlk.map (TxB.nm E.N)) (ready.map E.N.wal)) (InB.nm E.N)
      (fun i => i.hash.length = 32) (256 ^ 4)
      (fun b i a hb ha hi => filterIn_on_bytes RE hC mined hin ready hb hi ha)
      tx.ins 0 _ hinv0 (fun i hi => (hw.ins i hi).1) (by simpa using hw.nIns)
    refine bind_simQ _ _ _ _ (FRecB.nm0 E.N) (fun r => r.map (FRecB.nm0 E.N)) (FRecB.Inv E tx loc)
      (fun r => ∀ f, r = some f → f.Inv E tx loc) s1 s2 ?_
    intro f1 hf1
    exact filterFinish_on_bytes RE ready hw hfit hf1

-- ------------------------------------------------------------------ filterBlock's first loop

def filterTxsB (RE : RelEnv E c) (bs : BStore) (ready : List Bytes) (b : Block) :
    List TxB → List TxB → Nat → List FRecB → M (List FRecB)
  | [], _, _, acc => pure acc
  | tx :: rest, seen, ti, acc => do
    let r ← filterTxRelB RE bs tx (RE.locB b ti) true (seen ++ [tx]) ready
    match r with
    | some f => filterTxsB RE bs ready b rest (seen ++ [tx]) (ti + 1) (acc ++ [f])
    | none => filterTxsB RE bs ready b rest (seen ++ [tx]) (ti + 1) acc

theorem filterTxs_on_bytes_gen (RE : RelEnv E c) {bs : BStore} (hC : CanonS E bs) (ready : List Bytes) (b : Block) :
    ∀ (l seen : List TxB) (ti : Nat) (acc : List FRecB),
      (∀ t ∈ l, t.WF ∧ OutsFit t) → (∀ t ∈ seen, OutsFit t) →
      (∀ j, j < l.length → (RE.locB b (ti + j)).WF = true ∧ E.loc (RE.locB b (ti + j)) = (b.id, ti + j)) →
      (∀ f ∈ acc, f.Good E) →
      (filterTxsB RE bs ready b l seen ti acc).map (fun r => r.map (FRecB.nm E))
        = filterTxs c (absStore E bs) (ready.map E.N.wal) b.id (l.map (TxB.nm E.N)) (seen.map (TxB.nm E.N)) ti
            (acc.map (FRecB.nm E)) ∧
      ∀ r, filterTxsB RE bs ready b l seen ti acc = .ok r → ∀ f ∈ r, f.Good E := by
  intro l
  induction l with
  | nil => intro seen ti acc _ _ _ hacc; exact ⟨rfl, fun r e => by cases e; exact hacc⟩
  | cons tx rest ih =>
    intro seen ti acc hl hs hloc hacc
    have htx := hl tx List.mem_cons_self
    have hseen : ∀ t ∈ seen ++ [tx], OutsFit t := by
      intro t ht
      rcases List.mem_append.1 ht with h | h
      · exact hs t h
      · rw [List.mem_singleton.1 h]; exact htx.2
    obtain ⟨r1, r2⟩ := filterTxRel_on_bytes RE hC true hseen ready htx.1 htx.2 (RE.locB b ti)
    have hsm : seen.map (TxB.nm E.N) ++ [tx.nm E.N] = (seen ++ [tx]).map (TxB.nm E.N) := by simp
    have hrest : ∀ t ∈ rest, t.WF ∧ OutsFit t := fun t ht => hl t (List.mem_cons_of_mem _ ht)
    have hloc' : ∀ j, j < rest.length → (RE.locB b (ti + 1 + j)).WF = true ∧
        E.loc (RE.locB b (ti + 1 + j)) = (b.id, ti + 1 + j) := by
      intro j hj
      have := hloc (j + 1) (by simp; omega)
      have e : ti + (j + 1) = ti + 1 + j := by omega
      rw [e] at this
      exact this
    simp only [filterTxsB, filterTxs, List.map_cons]
    rw [hsm, ← r1]
    cases hx : filterTxRelB RE bs tx (RE.locB b ti) true (seen ++ [tx]) ready with
    | error e => exact ⟨rfl, fun r e => by cases e⟩
    | ok o =>
      cases o with
      | none => exact ih (seen ++ [tx]) (ti + 1) acc hrest hseen hloc' hacc
      | some f =>
        have hinv := r2 _ hx f rfl
        have hl0 : (RE.locB b ti).WF = true ∧ E.loc (RE.locB b ti) = (b.id, ti) := hloc 0 (by simp)
        have hgood : f.Good E := ⟨by rw [hinv.tx]; exact htx.1, hinv.relIn, hinv.relOut, by rw [hinv.loc]; exact hl0.1⟩
        have hnm : ({ f.nm0 E.N with loc := (b.id, ti) } : TxRec) = f.nm E := by
          unfold FRecB.nm; rw [hinv.loc, hl0.2]
        have hacc' : ∀ g ∈ acc ++ [f], g.Good E := by
          intro g hg
          rcases List.mem_append.1 hg with h | h
          · exact hacc g h
          · rw [List.mem_singleton.1 h]; exact hgood
        have := ih (seen ++ [tx]) (ti + 1) (acc ++ [f]) hrest hseen hloc' hacc'
        have hm : (acc ++ [f]).map (FRecB.nm E)
            = acc.map (FRecB.nm E) ++ [({ f.nm0 E.N with loc := (b.id, ti) } : TxRec)] := by
          rw [List.map_append, hnm]; rfl
        rw [hm] at this
        exact this

/-- **filterBlock's relevance computation on bytes** -/
theorem filterTxs_on_bytes (RE : RelEnv E c) {bs : BStore} (hC : CanonS E bs) (ready : List Bytes) {b : Block}
    (hd : RE.dom b) :
    (filterTxsB RE bs ready b (RE.txsB b) [] 0 []).map (fun r => r.map (FRecB.nm E))
      = filterTxs c (absStore E bs) (ready.map E.N.wal) b.id b.txs [] 0 [] ∧
    ∀ r, filterTxsB RE bs ready b (RE.txsB b) [] 0 [] = .ok r → ∀ f ∈ r, f.Good E := by
  have hlen : b.txs.length = (RE.txsB b).length := by rw [RE.txs_sim b hd, List.length_map]
  have := filterTxs_on_bytes_gen RE hC ready b (RE.txsB b) [] 0 [] (RE.txs_wf b hd) (fun _ h => by cases h)
    (fun j hj => by rw [Nat.zero_add]; exact RE.loc_sim b j hd (by omega)) (fun _ h => by cases h)
  rw [RE.txs_sim b hd]
  exact this

-- ------------------------------------------------------------------ the irrelevant transactions

/-- filterBlock: the non-coinbase transactions whose hash is not among the relevant records' hashes -/
def unrelB (txs : List TxB) (relHashes : List Bytes) : List TxB :=
  txs.filter (fun t => !t.cb && !relHashes.contains t.hash)

def insPairOf (N : Names) (t : TxB) : InsPair := (t.ins.map (fun i => ⟨i.hash, i.index⟩), t.nm N)

theorem insPairOf_ok {t : TxB} (h : t.WF) : (insPairOf E.N t).OK E := by
  refine ⟨?_, ?_⟩
  · intro o ho
    simp only [insPairOf, List.mem_map] at ho
    obtain ⟨i, hi, rfl⟩ := ho
    exact outPoint_wf_mk (h.ins i hi).1 (h.ins i hi).2
  · simp only [insPairOf, TxB.nm, List.map_map]
    rfl

theorem contains_hash (N : Names) (l : List RecPair) (hl : ∀ pr ∈ l, pr.2.tx.id = N.tx pr.1.hash) (h : Bytes) :
    (l.map Prod.snd).any (fun tr => tr.tx.id = N.tx h) = (l.map (·.1.hash)).contains h := by
  induction l with
  | nil => rfl
  | cons a l ih =>
    simp only [List.map_cons, List.any_cons, List.contains_cons]
    rw [ih (fun pr hp => hl pr (List.mem_cons_of_mem _ hp)), hl a List.mem_cons_self]
    congr 1
    by_cases e : h = a.1.hash
    · simp [e]
    · have : N.tx a.1.hash ≠ N.tx h := fun x => e (N.tx_inj _ _ x).symm
      simp [e, this]

theorem unrelB_sim (N : Names) (txs : List TxB) (l : List RecPair) (hl : ∀ pr ∈ l, pr.2.tx.id = N.tx pr.1.hash) :
    (unrelB txs (l.map (·.1.hash))).map (TxB.nm N) = unrelatedTxs (txs.map (TxB.nm N)) (l.map Prod.snd) := by
  unfold unrelB unrelatedTxs
  rw [List.filter_map]
  congr 1
  apply List.filter_congr
  intro t _
  simp only [Function.comp]
  have hcb : (t.nm N).cb = t.cb := rfl
  have hid : (t.nm N).id = N.tx t.hash := rfl
  rw [hcb, hid, contains_hash N l hl]

-- ------------------------------------------------------------------ the oracle of filterBlock

/-- the irrelevant transactions of the block with their model readings.  On a list of records whose two halves carry the
    same transaction (as every list `filterTxsB` returns does) this is `unrelB` on the records' hashes; `RelOracle.unrel_sim`
    is stated for every list, hence the other branch (same filter, read through the naming) -/
def unrelPairs (RE : RelEnv E c) (b : Block) (l : List RecPair) : List InsPair :=
  if ∀ pr ∈ l, pr.2.tx.id = E.N.tx pr.1.hash then (unrelB (RE.txsB b) (l.map (·.1.hash))).map (insPairOf E.N)
  else ((RE.txsB b).filter (fun t => !t.cb && !l.any (fun pr => pr.2.tx.id = E.N.tx t.hash))).map (insPairOf E.N)

theorem unrelPairs_of_ok (RE : RelEnv E c) (b : Block) {l : List RecPair} (hl : ∀ pr ∈ l, pr.OK E) :
    unrelPairs RE b l = (unrelB (RE.txsB b) (l.map (·.1.hash))).map (insPairOf E.N) := by
  unfold unrelPairs
  rw [if_pos (fun pr hp => (hl pr hp).2.id)]

theorem unrelPairs_sim (RE : RelEnv E c) {b : Block} (hd : RE.dom b) (l : List RecPair) :
    (unrelPairs RE b l).map Prod.snd = unrelatedTxs b.txs (l.map Prod.snd) := by
  have hsnd : ∀ ts : List TxB, (ts.map (insPairOf E.N)).map Prod.snd = ts.map (TxB.nm E.N) := by
    intro ts; rw [List.map_map]; rfl
  unfold unrelPairs
  rw [RE.txs_sim b hd]
  by_cases hl : ∀ pr ∈ l, pr.2.tx.id = E.N.tx pr.1.hash
  · rw [if_pos hl, hsnd]
    exact unrelB_sim E.N _ l hl
  · rw [if_neg hl, hsnd]
    unfold unrelatedTxs
    rw [List.filter_map]
    congr 1
    apply List.filter_congr
    intro t _
    simp only [Function.comp, List.any_map]
    rfl

theorem unrelPairs_ok (RE : RelEnv E c) {b : Block} (hd : RE.dom b) (l : List RecPair) :
    ∀ pr ∈ unrelPairs RE b l, pr.OK E := by
  intro pr hp
  unfold unrelPairs at hp
  split at hp
  · obtain ⟨t, ht, rfl⟩ := List.mem_map.1 hp
    exact insPairOf_ok ((RE.txs_wf b hd t (List.mem_filter.1 ht).1).1)
  · obtain ⟨t, ht, rfl⟩ := List.mem_map.1 hp
    exact insPairOf_ok ((RE.txs_wf b hd t (List.mem_filter.1 ht).1).1)

/-- **the oracle of `filterBlockB` from the byte-level description of the node** -/
def relOracleOf (RE : RelEnv E c) : RelOracle E c where
  dom := RE.dom
  rel bs ready b := (filterTxsB RE bs ready b (RE.txsB b) [] 0 []).map (fun r => r.map (FRecB.pair E))
  unrel _ _ b l := unrelPairs RE b l
  rel_sim bs ready b hd hC := by
    rw [← (filterTxs_on_bytes RE hC ready hd).1]
    cases filterTxsB RE bs ready b (RE.txsB b) [] 0 [] with
    | error e => rfl
    | ok r =>
      show Except.ok _ = Except.ok _
      congr 1
      show List.map Prod.snd (List.map (FRecB.pair E) r) = List.map (FRecB.nm E) r
      rw [List.map_map]
      rfl
  rel_ok bs ready b l hd hC h := by
    cases hx : filterTxsB RE bs ready b (RE.txsB b) [] 0 [] with
    | error e => rw [hx] at h; cases h
    | ok r =>
      rw [hx] at h
      cases h
      intro pr hp
      obtain ⟨f, hf, rfl⟩ := List.mem_map.1 hp
      exact FRecB.pair_ok ((filterTxs_on_bytes RE hC ready hd).2 r hx f hf)
  unrel_sim _ _ b l hd := unrelPairs_sim RE hd l
  unrel_ok _ _ b l hd := unrelPairs_ok RE hd l

end MW.LedBytes
