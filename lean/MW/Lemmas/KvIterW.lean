/-
  `iter_write_shape`: what the iterator INSIDE a write transaction yields, as written in
  leveldb.go – first the committed entries of the range, then the batch's net puts (of the whole
  batch) whose key lies in the range, ascending; deletes of the transaction are not masked and
  overwritten keys appear twice.  Not a property claim: a characterisation for the models that
  iterate inside write transactions.
-/
import MW.Model.KVSys
namespace MW.Model.KV
open MW MW.KV

/-- Key() of an entry for a bucket with the given pathLen -/
def keyOf (pathLen : Nat) (e : Bytes × Bytes) : Option Bytes :=
  if e.1.length > 0 then some (e.1.drop (pathLen + 1)) else none

/-- one yielded entry as the script runner records it -/
def yielded (pathLen : Nat) (e : Bytes × Bytes) : Bool × Option Bytes × Option Bytes :=
  (true, keyOf pathLen e, some e.2)

theorem findSome_zipIdx (inR : Bytes → Bool) (rest : List (Bytes × Bytes)) (k : Nat) :
    (rest.zipIdx k).findSome? (fun e => if inR e.1.1 then some e.2 else none) =
      match rest.findIdx? (fun e => inR e.1) with
      | some j => some (k + j)
      | none => none := by
  induction rest generalizing k with
  | nil => rfl
  | cons e r ih =>
    simp only [List.zipIdx_cons, List.findSome?_cons, List.findIdx?_cons]
    by_cases h : inR e.1 = true
    · simp [h]
    · simp only [h, Bool.false_eq_true, if_false, ih]
      cases r.findIdx? (fun e => inR e.1) with
      | none => rfl
      | some j => simp; omega

/-- splitting a list at the first element satisfying `p` -/
theorem findIdx_split {α : Type} (p : α → Bool) (l : List α) :
    (l.findIdx? p = none ∧ l.filter p = []) ∨
    (∃ r1 e r2, l = r1 ++ e :: r2 ∧ l.findIdx? p = some r1.length ∧ p e = true ∧ r1.filter p = []) := by
  induction l with
  | nil => exact Or.inl ⟨rfl, rfl⟩
  | cons a r ih =>
    by_cases h : p a = true
    · exact Or.inr ⟨[], a, r, rfl, by simp [List.findIdx?_cons, h], h, rfl⟩
    · rcases ih with ⟨h1, h2⟩ | ⟨r1, e, r2, hl, hi, he, hf⟩
      · exact Or.inl ⟨by simp [List.findIdx?_cons, h, h1], by simp [List.filter_cons, h, h2]⟩
      · refine Or.inr ⟨a :: r1, e, r2, by rw [hl]; rfl, ?_, he, by simp [List.filter_cons, h, hf]⟩
        simp [List.findIdx?_cons, h, hi]

/-- batch phase: the committed part is exhausted (`iterEnd`), the batch iterator has passed
    `pre` and still has `rest` ahead -/
theorem drain_batch_phase (b : Bucket) : ∀ (n : Nat) (fuel : Nat) (it : LevelIter) (bi : BatchIter)
    (pre rest : List (Bytes × Bytes)),
    it.readOnly = false → it.iterEnd = true → it.batchIter = some bi →
    bi.keys = pre ++ rest → bi.ptr + 1 = (pre.length : Int) →
    (rest.filter fun e => bi.inRange e.1).length = n → n < fuel →
    (drain b fuel it).2 =
      (rest.filter fun e => bi.inRange e.1).map (yielded it.pathLen) ++ [(false, none, none)] := by
  intro n
  induction n with
  | zero =>
    intro fuel it bi pre rest hro hie hbi hkeys hptr hn hf
    cases fuel with
    | zero => omega
    | succ fuel =>
      have hnil : (rest.filter fun e => bi.inRange e.1) = [] := List.length_eq_zero_iff.mp hn
      have hfi : rest.findIdx? (fun e => bi.inRange e.1) = none := by
        rcases findIdx_split (fun e => bi.inRange e.1) rest with ⟨h1, _⟩ | ⟨r1, e, r2, hl, _, he, _⟩
        · exact h1
        · exfalso
          have : e ∈ rest.filter fun e => bi.inRange e.1 := List.mem_filter.mpr ⟨by rw [hl]; simp, he⟩
          rw [hnil] at this; cases this
      -- Next fails
      have hpn : (bi.ptr + 1).toNat = pre.length := by omega
      have hff : bi.findFrom (bi.ptr + 1).toNat = none := by
        unfold BatchIter.findFrom
        rw [hpn, hkeys, List.zipIdx_append, List.drop_left' (by simp), findSome_zipIdx, hfi]
      simp only [drain]
      by_cases hend : bi.isEnd = true
      · have hnext : it.next = (it, false) := by
          unfold LevelIter.next LevelIter.batchEnd
          simp [hie, hro, hbi, hend]
        rw [hnext]
        simp only [Bool.false_eq_true, if_false, hnil, List.map_nil, List.nil_append]
        unfold LevelIter.key LevelIter.value LevelIter.data LevelIter.batchEnd
        simp [hie, hro, hbi, hend]
      · have hnext : it.next = ({ it with batchIter := some { bi with ptr := bi.keys.length } }, false) := by
          unfold LevelIter.next LevelIter.batchEnd LevelIter.batchNext BatchIter.next
          simp [hie, hro, hbi, hend, hff]
        rw [hnext]
        simp only [Bool.false_eq_true, if_false, hnil, List.map_nil, List.nil_append]
        unfold LevelIter.key LevelIter.value LevelIter.data LevelIter.batchEnd BatchIter.isEnd
        simp [hie, hro]
  | succ n ih =>
    intro fuel it bi pre rest hro hie hbi hkeys hptr hn hf
    cases fuel with
    | zero => omega
    | succ fuel =>
      rcases findIdx_split (fun e => bi.inRange e.1) rest with ⟨_, h2⟩ | ⟨r1, e, r2, hl, hi, he, hf1⟩
      · rw [h2] at hn; simp at hn
      · have hpn : (bi.ptr + 1).toNat = pre.length := by omega
        have hff : bi.findFrom (bi.ptr + 1).toNat = some (pre.length + r1.length) := by
          unfold BatchIter.findFrom
          rw [hpn, hkeys, List.zipIdx_append, List.drop_left' (by simp), findSome_zipIdx, hi]
          simp
        have hnotend : bi.isEnd = false := by
          unfold BatchIter.isEnd
          rw [hkeys, hl]
          simp only [List.length_append, List.length_cons, decide_eq_false_iff_not]
          push_cast
          omega
        let bi' : BatchIter := { bi with ptr := ((pre.length + r1.length : Nat) : Int) }
        have hnext : it.next = ({ it with batchIter := some bi' }, true) := by
          unfold LevelIter.next LevelIter.batchEnd LevelIter.batchNext BatchIter.next
          simp [hie, hro, hbi, hnotend, hff, bi']
        simp only [drain]
        rw [hnext]
        simp only [if_true]
        have hfilter : (rest.filter fun e => bi.inRange e.1) = e :: (r2.filter fun e => bi.inRange e.1) := by
          rw [hl, List.filter_append, hf1, List.nil_append, List.filter_cons, he]; simp
        have hn' : (r2.filter fun e => bi'.inRange e.1).length = n := by
          rw [hfilter] at hn
          simp at hn
          exact hn
        have hrec := ih fuel { it with batchIter := some bi' } bi' (pre ++ r1 ++ [e]) r2 hro hie rfl
          (by show bi.keys = _; rw [hkeys, hl]; simp) (by show ((pre.length + r1.length : Nat) : Int) + 1 = _; simp; omega)
          hn' (by omega)
        rw [hrec, hfilter]
        -- the entry just yielded
        have hcur : bi'.cur = some e := by
          unfold BatchIter.cur
          have : ¬ ((pre.length + r1.length : Nat) : Int) < 0 := by omega
          simp only [bi', this, if_false, Int.toNat_natCast]
          rw [hkeys, hl, ← List.append_assoc, List.getElem?_append_right (by simp)]
          simp
        have hbe : bi'.isEnd = false := by
          unfold BatchIter.isEnd
          simp only [bi', decide_eq_false_iff_not]
          rw [hkeys, hl]
          simp only [List.length_append, List.length_cons]
          push_cast
          omega
        have hobs : ((true : Bool), LevelIter.key { it with batchIter := some bi' }, LevelIter.value { it with batchIter := some bi' })
            = yielded it.pathLen e := by
          have hdata : LevelIter.data { it with batchIter := some bi' } = some e := by
            unfold LevelIter.data LevelIter.batchEnd
            simp [hie, hro, hbe, hcur]
          unfold LevelIter.key LevelIter.value yielded keyOf
          rw [hdata]
          obtain ⟨ek, ev⟩ := e
          simp
        rw [hobs]
        rfl

theorem drain_eq_of_next_eq (b : Bucket) (fuel : Nat) (it it' : LevelIter) (h : it.next = it'.next) :
    (drain b fuel it).2 = (drain b fuel it').2 := by
  cases fuel with
  | zero => rfl
  | succ fuel => simp only [drain, h]

/-- committed phase: the goleveldb iterator still has `todo` ahead, the batch iterator is untouched -/
theorem drain_ldb_phase (b : Bucket) : ∀ (todo : List (Bytes × Bytes)) (fuel : Nat) (it : LevelIter) (bi : BatchIter),
    it.readOnly = false → it.iterEnd = false → it.batchIter = some bi → bi.ptr = -1 → it.todo = todo →
    todo.length + (bi.keys.filter fun e => bi.inRange e.1).length < fuel →
    (drain b fuel it).2 =
      todo.map (yielded it.pathLen) ++
        (bi.keys.filter fun e => bi.inRange e.1).map (yielded it.pathLen) ++ [(false, none, none)] := by
  intro todo
  induction todo with
  | nil =>
    intro fuel it bi hro hie hbi hptr htodo hf
    -- the failing goleveldb Next flips iterEnd and moves on to the batch in the same call
    let it2 : LevelIter := { it with cur := none, iterEnd := true }
    have hn : it.next = it2.next := by
      unfold LevelIter.next LevelIter.ldbNext
      simp [hie, htodo, it2]
    rw [drain_eq_of_next_eq b fuel it it2 hn]
    have := drain_batch_phase b _ fuel it2 bi [] bi.keys hro rfl hbi (by simp) (by rw [hptr]; rfl) rfl
      (by simp at hf; exact hf)
    simpa using this
  | cons e rest ih =>
    intro fuel it bi hro hie hbi hptr htodo hf
    cases fuel with
    | zero => omega
    | succ fuel =>
      let it1 : LevelIter := { it with cur := some e, todo := rest }
      have hn : it.next = (it1, true) := by
        unfold LevelIter.next LevelIter.ldbNext
        simp [hie, htodo, it1]
      simp only [drain, hn, if_true]
      have hrec := ih fuel it1 bi hro hie hbi hptr rfl (by simp at hf ⊢; omega)
      rw [hrec]
      have hobs : ((true : Bool), it1.key, it1.value) = yielded it.pathLen e := by
        have hdata : it1.data = some e := by
          unfold LevelIter.data
          simp [it1, hie]
        unfold LevelIter.key LevelIter.value yielded keyOf
        rw [hdata]
        obtain ⟨ek, ev⟩ := e
        simp [it1]
      rw [hobs]
      simp [it1]

/-- `iter_write_shape`: draining a fresh iterator inside a write transaction yields the committed
    entries of the range, then those net puts of the batch whose key lies in [start, limit), then
    stops – exactly the layering of levelIterator / batchIterator in leveldb.go. -/
theorem iter_write_shape (tx : Tx) (hw : tx.readOnly = false) (b : Bucket) (st l : Bytes) :
    let it := b.newIterator tx st l
    let s' := (b.iterBounds st l).1
    let l' := (b.iterBounds st l).2
    let inR : Bytes → Bool := fun k => ble s' k && (match l' with | none => false | some x => blt k x)
    runScript b it [.all] =
      (tx.db.range s' l').map (yielded b.pathLen) ++
        ((tx.b.netPuts []).filter fun e => inR e.1).map (yielded b.pathLen) ++ [(false, none, none)] := by
  intro it s' l' inR
  let bi : BatchIter := newBatchIterator tx.b s' l'
  have hbi : it.batchIter = some bi := by
    simp only [it, Bucket.newIterator, hw, Bool.false_eq_true, if_false]
    rfl
  have hro : it.readOnly = false := by simp [it, Bucket.newIterator, hw]
  have hrng : it.rng = tx.db.range s' l' := rfl
  have htodo : it.todo = tx.db.range s' l' := rfl
  have hpl : it.pathLen = b.pathLen := rfl
  have hfuel : it.todo.length + (bi.keys.filter fun e => bi.inRange e.1).length < drainFuel it := by
    unfold drainFuel
    rw [hbi, htodo, hrng]
    have := List.length_filter_le (fun e : Bytes × Bytes => bi.inRange e.1) bi.keys
    simp only
    omega
  have := drain_ldb_phase b it.todo (drainFuel it) it bi hro rfl hbi rfl rfl hfuel
  simp only [runScript, List.append_nil]
  rw [this, htodo, hpl]
  rfl

end MW.Model.KV
