/-
  C01, last mile (part 1): the coin query `coinsOf` read through the invariant.
  `coinsOf s w` (unspent index ⋈ credit table) is a permutation of the ledger entries of wallet `w`
  in the books of the chain (zero-value outputs dropped), each shown with its unspent credit.
-/
import MW.Lemmas.LedgerConnect
import MW.Lemmas.LedgerConfs
namespace MW.Lemmas.Ledger
open MW MW.Model.Ledger MW.Spec.Chain MW.Spec.Books

theorem nodup_of_nodup_map {α β : Type} (f : α → β) {l : List α} (h : (l.map f).Nodup) : l.Nodup := by
  unfold List.Nodup at *
  rw [List.pairwise_map] at h
  exact h.imp (fun hne he => hne (by rw [he]))

-- ------------------------------------------------------------------ 1. coinsOf, entry by entry

/-- the body of `coinsOf`: what one entry of the unspent index contributes -/
def coinEntry (s : Store) (w : Wid) (e : (Wid × TxId × Nat) × BlockMeta) : Option Coin :=
  if e.1.1 = w then
    match AMap.get s.credits ⟨e.1.2.1, e.2, e.1.2.2⟩ with
    | some c => if c.amt = 0 then none else some ⟨w, e.1.2.1, e.1.2.2, e.2, c⟩
    | none => none
  else none

theorem coinsOf_eq (s : Store) (w : Wid) : coinsOf s w = s.unspent.filterMap (coinEntry s w) := by
  unfold coinsOf
  congr 1

theorem coinEntry_some {s : Store} {w : Wid} {e : (Wid × TxId × Nat) × BlockMeta} {x : Coin} :
    coinEntry s w e = some x ↔
      e = ((w, x.tx, x.idx), x.blk) ∧ x.wallet = w ∧
      AMap.get s.credits ⟨x.tx, x.blk, x.idx⟩ = some x.cred ∧ x.cred.amt ≠ 0 := by
  obtain ⟨⟨w', tx, idx⟩, bm⟩ := e
  unfold coinEntry
  simp only
  constructor
  · intro h
    by_cases hw : w' = w
    · simp only [hw, if_true] at h
      cases hc : AMap.get s.credits ⟨tx, bm, idx⟩ with
      | none => rw [hc] at h; cases h
      | some c =>
        rw [hc] at h
        simp only at h
        by_cases ha : c.amt = 0
        · simp [ha] at h
        · simp only [ha, if_false, Option.some.injEq] at h
          subst h
          exact ⟨by rw [hw], rfl, hc, ha⟩
    · simp [hw] at h
  · rintro ⟨he, hw, hc, ha⟩
    simp only [Prod.mk.injEq] at he
    obtain ⟨⟨rfl, rfl, rfl⟩, rfl⟩ := he
    simp only [if_true]
    rw [hc]
    simp only [ha, if_false]
    cases x with
    | mk xw xtx xidx xblk xcred => simp only at hw; rw [hw]

/-- 1a. membership in `coinsOf`: the unspent index has the outpoint under wallet `w`, the credit table
    has the credit under the key the index points at, and the amount is not zero -/
theorem mem_coinsOf_iff {s : Store} {w : Wid} (hWF : KeysNodup s.unspent) (x : Coin) :
    x ∈ coinsOf s w ↔ x.wallet = w ∧ AMap.get s.unspent (w, x.tx, x.idx) = some x.blk ∧
      AMap.get s.credits ⟨x.tx, x.blk, x.idx⟩ = some x.cred ∧ x.cred.amt ≠ 0 := by
  rw [coinsOf_eq, List.mem_filterMap]
  constructor
  · rintro ⟨e, hm, hf⟩
    obtain ⟨he, hw, hc, ha⟩ := coinEntry_some.1 hf
    subst he
    exact ⟨hw, (mem_iff_get_of_nodup hWF _ _).1 hm, hc, ha⟩
  · rintro ⟨hw, hu, hc, ha⟩
    exact ⟨((w, x.tx, x.idx), x.blk), (mem_iff_get_of_nodup hWF _ _).2 hu, coinEntry_some.2 ⟨rfl, hw, hc, ha⟩⟩

/-- 1b. one coin per outpoint -/
theorem coinsOf_keys_nodup {s : Store} (w : Wid) (hWF : KeysNodup s.unspent) :
    ((coinsOf s w).map (fun x => (x.tx, x.idx))).Nodup := by
  rw [coinsOf_eq]
  unfold List.Nodup
  rw [List.pairwise_map]
  unfold KeysNodup List.Nodup at hWF
  rw [List.pairwise_map] at hWF
  refine List.Pairwise.filterMap (coinEntry s w) ?_ hWF
  intro a a' hne b hb b' hb' heq
  obtain ⟨ha, _⟩ := coinEntry_some.1 hb
  obtain ⟨ha', _⟩ := coinEntry_some.1 hb'
  apply hne
  simp only [Prod.mk.injEq] at heq
  rw [ha, ha', heq.1, heq.2]

theorem coinsOf_nodup {s : Store} (w : Wid) (hWF : KeysNodup s.unspent) : (coinsOf s w).Nodup :=
  nodup_of_nodup_map _ (coinsOf_keys_nodup w hWF)

end MW.Lemmas.Ledger
