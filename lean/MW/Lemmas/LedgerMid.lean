/-
  The invariants of the ROLLBACK proofs (LedgerUndo.lean) hold along every valid chain:
    frame lemmas       what a step of `applyOcc` leaves alone on `debits` / `game` / `credits`
    glob2_nil / glob2_step / glob2_fold / glob2_bookOf      `Glob2` (debits and deposit records only of known ids)
    locW_step / locW_fold / locW_bookOf                      `LocW`  (no withdrawn record for a coin of the ledger)
-/
import MW.Lemmas.LedgerUndo
namespace MW.Lemmas.Ledger
open MW MW.Model.Ledger MW.Spec.Chain MW.Spec.Books

-- ------------------------------------------------------------------ frame: spendB

theorem spendB_debits_of (p : Params) (t : Tx) (bm : BlockMeta) (B : Book) (k : Nat) (i : Inp) (dk : CredKey)
    (h : dk ≠ ⟨t.id, bm, k⟩) : (spendB p t bm B k i).debits dk = B.debits dk := by
  unfold spendB
  cases hl : lookupU B.L i.tx i.idx with
  | none => rfl
  | some u =>
    have : ¬ ((⟨t.id, bm, k⟩ : CredKey) = dk) := fun e => h e.symm
    simp only [upd_apply, this, if_false]

/-- the spend fold from index `k` writes the debit keys (t, bm, k'), k ≤ k', only -/
theorem spendFold_debits_of (p : Params) (t : Tx) (bm : BlockMeta) (is : List Inp) (k : Nat) (B : Book)
    (dk : CredKey) (h : dk.tx ≠ t.id ∨ dk.blk ≠ bm ∨ dk.idx < k) :
    (foldIdx (spendB p t bm) is k B).debits dk = B.debits dk := by
  induction is generalizing k B with
  | nil => rfl
  | cons i is ih =>
    have h' : dk.tx ≠ t.id ∨ dk.blk ≠ bm ∨ dk.idx < k + 1 := by
      rcases h with h | h | h
      · exact Or.inl h
      · exact Or.inr (Or.inl h)
      · exact Or.inr (Or.inr (by omega))
    have hne : dk ≠ ⟨t.id, bm, k⟩ := by
      intro e; subst e
      rcases h with h | h | h
      · exact h rfl
      · exact h rfl
      · exact Nat.lt_irrefl _ h
    rw [foldIdx_cons, ih (k + 1) _ h', spendB_debits_of p t bm B k i dk hne]

theorem spendB_L_sub (p : Params) (t : Tx) (bm : BlockMeta) (B : Book) (k : Nat) (i : Inp) :
    ∀ u ∈ (spendB p t bm B k i).L, u ∈ B.L := by
  intro u hu
  rw [spendB_L] at hu
  exact (List.mem_filter.1 hu).1

/-- `spendB` only writes deposit records of coins of the ledger -/
theorem spendB_game_of (p : Params) (t : Tx) (bm : BlockMeta) (B : Book) (k : Nat) (i : Inp) (gk : GameKey)
    (h : ∀ u ∈ B.L, u.tx ≠ gk.tx) : (spendB p t bm B k i).game gk = B.game gk := by
  unfold spendB
  cases hl : lookupU B.L i.tx i.idx with
  | none => rfl
  | some u =>
    have hne := h u (lookupU_some hl).1
    have h1 : ¬ (u.gameKey false = gk) := by intro e; apply hne; rw [← e]; rfl
    have h2 : ¬ (u.gameKey true = gk) := by intro e; apply hne; rw [← e]; rfl
    by_cases hd : isDeposit u.out.cls = true
    · simp only [hd, if_true, upd_apply, h1, h2, if_false]
    · simp only [hd]; rfl

theorem spendFold_game_of (p : Params) (t : Tx) (bm : BlockMeta) (is : List Inp) (k : Nat) (B : Book)
    (gk : GameKey) (h : ∀ u ∈ B.L, u.tx ≠ gk.tx) :
    (foldIdx (spendB p t bm) is k B).game gk = B.game gk := by
  induction is generalizing k B with
  | nil => rfl
  | cons i is ih =>
    rw [foldIdx_cons, ih (k + 1) _ (fun u hu => h u (spendB_L_sub p t bm B k i u hu)),
      spendB_game_of p t bm B k i gk h]

theorem spendB_addrs (p : Params) (t : Tx) (bm : BlockMeta) (B : Book) (k : Nat) (i : Inp) :
    (spendB p t bm B k i).addrs = B.addrs := by
  unfold spendB
  cases h : lookupU B.L i.tx i.idx <;> rfl

theorem spendStep_debits_of (p : Params) (B : Book) (oc : Occ) (dk : CredKey) (h : dk.tx ≠ oc.t.id) :
    (spendStep p B oc).debits dk = B.debits dk := by
  unfold spendStep
  by_cases hc : oc.t.cb = true
  · simp [hc]
  · simp only [hc]; exact spendFold_debits_of _ _ _ _ _ _ _ (Or.inl h)

theorem spendStep_game_of (p : Params) (B : Book) (oc : Occ) (gk : GameKey) (h : ∀ u ∈ B.L, u.tx ≠ gk.tx) :
    (spendStep p B oc).game gk = B.game gk := by
  unfold spendStep
  by_cases hc : oc.t.cb = true
  · simp [hc]
  · simp only [hc]; exact spendFold_game_of _ _ _ _ _ _ _ h

-- ------------------------------------------------------------------ frame: createB

theorem createB_game (p : Params) (own : Own) (t : Tx) (bm : BlockMeta) (B : Book) (j : Nat) (o : Out) :
    (createB p own t bm B j o).game = B.game := by
  unfold createB
  cases h : ownerOf own o <;> rfl

theorem createB_debits (p : Params) (own : Own) (t : Tx) (bm : BlockMeta) (B : Book) (j : Nat) (o : Out) :
    (createB p own t bm B j o).debits = B.debits := by
  unfold createB
  cases h : ownerOf own o <;> rfl

theorem createFold_game (p : Params) (own : Own) (t : Tx) (bm : BlockMeta) (os : List Out) (j : Nat) (B : Book) :
    (foldIdx (createB p own t bm) os j B).game = B.game := by
  induction os generalizing j B with
  | nil => rfl
  | cons o os ih => rw [foldIdx_cons, ih, createB_game]

theorem createFold_debits (p : Params) (own : Own) (t : Tx) (bm : BlockMeta) (os : List Out) (j : Nat) (B : Book) :
    (foldIdx (createB p own t bm) os j B).debits = B.debits := by
  induction os generalizing j B with
  | nil => rfl
  | cons o os ih => rw [foldIdx_cons, ih, createB_debits]

theorem createB_credits_of (p : Params) (own : Own) (t : Tx) (bm : BlockMeta) (B : Book) (j : Nat) (o : Out)
    (ck : CredKey) (h : ck ≠ ⟨t.id, bm, j⟩) : (createB p own t bm B j o).credits ck = B.credits ck := by
  unfold createB
  cases ho : ownerOf own o with
  | none => rfl
  | some wc =>
    have : ¬ ((⟨t.id, bm, j⟩ : CredKey) = ck) := fun e => h e.symm
    simp only [upd_apply, UCoin.credKey, this, if_false]

/-- the create fold from index `j` writes the credit keys (t, bm, j'), j ≤ j', only -/
theorem createFold_credits_of (p : Params) (own : Own) (t : Tx) (bm : BlockMeta) (os : List Out) (j : Nat) (B : Book)
    (ck : CredKey) (h : ck.tx ≠ t.id ∨ ck.blk ≠ bm ∨ ck.idx < j) :
    (foldIdx (createB p own t bm) os j B).credits ck = B.credits ck := by
  induction os generalizing j B with
  | nil => rfl
  | cons o os ih =>
    have h' : ck.tx ≠ t.id ∨ ck.blk ≠ bm ∨ ck.idx < j + 1 := by
      rcases h with h | h | h
      · exact Or.inl h
      · exact Or.inr (Or.inl h)
      · exact Or.inr (Or.inr (by omega))
    have hne : ck ≠ ⟨t.id, bm, j⟩ := by
      intro e; subst e
      rcases h with h | h | h
      · exact h rfl
      · exact h rfl
      · exact Nat.lt_irrefl _ h
    rw [foldIdx_cons, ih (j + 1) _ h', createB_credits_of p own t bm B j o ck hne]

-- ------------------------------------------------------------------ frame: depositB

theorem depositB_game_of (own : Own) (t : Tx) (bm : BlockMeta) (B : Book) (j : Nat) (o : Out) (gk : GameKey)
    (h : gk.withdrawn = true ∨ gk.tx ≠ t.id ∨ gk.vout ≠ j) : (depositB own t bm B j o).game gk = B.game gk := by
  unfold depositB
  cases ownerOf own o with
  | none => rfl
  | some wc =>
    obtain ⟨w, ch⟩ := wc
    have hne : ¬ ((⟨w, o.cls.isBinding, false, t.id, bm.height, j⟩ : GameKey) = gk) := by
      intro e; subst e
      rcases h with h | h | h
      · cases h
      · exact h rfl
      · exact h rfl
    by_cases hd : isDeposit o.cls = true
    · simp only [hd, if_true, upd_apply, hne, if_false]
    · simp only [hd]; rfl

/-- the deposit fold from index `j` writes un-withdrawn records (·, ·, false, t, ·, j'), j ≤ j', only -/
theorem depositFold_game_of (own : Own) (t : Tx) (bm : BlockMeta) (os : List Out) (j : Nat) (B : Book) (gk : GameKey)
    (h : gk.withdrawn = true ∨ gk.tx ≠ t.id ∨ gk.vout < j) :
    (foldIdx (depositB own t bm) os j B).game gk = B.game gk := by
  induction os generalizing j B with
  | nil => rfl
  | cons o os ih =>
    have h' : gk.withdrawn = true ∨ gk.tx ≠ t.id ∨ gk.vout < j + 1 := by
      rcases h with h | h | h
      · exact Or.inl h
      · exact Or.inr (Or.inl h)
      · exact Or.inr (Or.inr (by omega))
    have h'' : gk.withdrawn = true ∨ gk.tx ≠ t.id ∨ gk.vout ≠ j := by
      rcases h with h | h | h
      · exact Or.inl h
      · exact Or.inr (Or.inl h)
      · exact Or.inr (Or.inr (by omega))
    rw [foldIdx_cons, ih (j + 1) _ h', depositB_game_of own t bm B j o gk h'']

-- ------------------------------------------------------------------ frame: recStep

theorem recStep_debits (own : Own) (B : Book) (oc : Occ) : (recStep own B oc).debits = B.debits := by
  unfold recStep; by_cases h : touches own B oc.t = true <;> simp [h, recordB]

-- ------------------------------------------------------------------ freshness from Glob / Glob2

/-- no coin of the ledger belongs to a transaction outside `P` -/
theorem glob_L_ne {own : Own} {P : List Occ} {B : Book} (hGl : Glob own P B) {tx : TxId} (hf : tx ∉ idsOf P) :
    ∀ u ∈ B.L, u.tx ≠ tx := by
  intro u hu he
  have := createdIn_ids ((hGl.mem u).1 hu).1
  rw [he] at this; exact hf this

/-- no debit and no deposit record mentions a transaction outside `P` -/
theorem glob2_fresh {P : List Occ} {B : Book} (h2 : Glob2 P B) {tx : TxId} (hf : tx ∉ idsOf P) :
    (∀ dk : CredKey, dk.tx = tx → B.debits dk = none) ∧ (∀ gk : GameKey, gk.tx = tx → B.game gk = none) := by
  constructor
  · intro dk hk
    cases h : B.debits dk with
    | none => rfl
    | some v => exact absurd (hk ▸ h2.debitIds dk (by rw [h]; rfl)) hf
  · intro gk hk
    cases h : B.game gk with
    | none => rfl
    | some v => exact absurd (hk ▸ h2.gameIds gk (by rw [h]; rfl)) hf

-- ------------------------------------------------------------------ Glob2 along a chain

theorem glob2_nil : Glob2 [] {} where
  debitIds := by intro dk h; cases h
  gameIds := by intro gk h; cases h

set_option linter.unusedVariables false in
theorem glob2_step {p : Params} {own : Own} {P : List Occ} {B : Book} {oc : Occ}
    (h2 : Glob2 P B) (hGl : Glob own P B) (hV : OccValid own P oc) :
    Glob2 (P ++ [oc]) (applyOcc p own B oc) := by
  constructor
  · intro dk h
    rw [mem_idsOf_snoc]
    by_cases hk : dk.tx = oc.t.id
    · exact Or.inr hk
    · left
      apply h2.debitIds
      rw [applyOcc_eq, (depositFold_L ..).2.2.1, createFold_debits, spendStep_debits_of _ _ _ _ hk,
        recStep_debits] at h
      exact h
  · intro gk h
    rw [mem_idsOf_snoc]
    by_cases hk : gk.tx = oc.t.id
    · exact Or.inr hk
    · left
      rw [applyOcc_eq, depositFold_game_of _ _ _ _ _ _ gk (Or.inr (Or.inl hk)), createFold_game] at h
      by_cases hex : ∃ u ∈ B.L, u.tx = gk.tx
      · obtain ⟨u, hu, he⟩ := hex
        rw [← he]; exact createdIn_ids ((hGl.mem u).1 hu).1
      · apply h2.gameIds
        rw [spendStep_game_of _ _ _ _ (by rw [recStep_L]; exact fun u hu he => hex ⟨u, hu, he⟩), recStep_game] at h
        exact h

theorem glob2_fold {p : Params} {own : Own} {P : List Occ} {B : Book} {rest : List Occ} :
    Glob2 P B → Glob own P B → ValidFrom own P rest → Glob2 (P ++ rest) (rest.foldl (applyOcc p own) B) := by
  induction rest generalizing P B with
  | nil => intro h2 _ _; simpa using h2
  | cons oc rest ih =>
    intro h2 hGl hV
    obtain ⟨h1, hV2⟩ := hV
    have := ih (glob2_step (p := p) h2 hGl h1) (glob_step (p := p) hGl h1) hV2
    simpa [List.append_assoc] using this

theorem glob2_bookOf {p : Params} {own : Own} {chain : List Block} :
    ChainValid own chain → Glob2 (occs chain) (bookOf p own chain) := by
  intro h
  have := glob2_fold (p := p) glob2_nil (glob_nil own) h
  unfold bookOf
  simpa using this

-- ------------------------------------------------------------------ LocW along a chain

/-- a spent coin leaves the ledger, so its withdrawn record belongs to no remaining coin -/
theorem spendB_locW {p : Params} {t : Tx} {bm : BlockMeta} {B : Book} {k : Nat} {i : Inp} (hW : LocW B) :
    LocW (spendB p t bm B k i) := by
  cases hu : lookupU B.L i.tx i.idx with
  | none => rw [spendB_miss hu]; exact hW
  | some u =>
    obtain ⟨_, htx, hidx⟩ := lookupU_some hu
    intro u' hu'
    have hm := List.mem_filter.1 (by rw [spendB_L] at hu'; exact hu')
    have hne : ¬ (u'.tx = u.tx ∧ u'.idx = u.idx) := by
      have := hm.2
      rw [htx, hidx]
      intro h
      have h' := (at_iff i.tx i.idx u').2 h
      simp [h'] at this
    unfold spendB; rw [hu]
    by_cases hd : isDeposit u.out.cls = true
    · simp only [hd, if_true, upd_apply, gameKey_ne_of_key_ne true true hne,
        gameKey_ne_of_key_ne false true hne, if_false]
      exact hW u' hm.1
    · simp only [hd]
      exact hW u' hm.1

theorem spendFold_locW {p : Params} {t : Tx} {bm : BlockMeta} (is : List Inp) :
    ∀ (k : Nat) (B : Book), LocW B → LocW (foldIdx (spendB p t bm) is k B) := by
  induction is with
  | nil => intro k B h; exact h
  | cons i is ih =>
    intro k B h
    rw [foldIdx_cons]
    exact ih (k + 1) _ (spendB_locW h)

/-- crediting the outputs (from `j` on) of a transaction that has no deposit record yet keeps `LocW` -/
theorem locW_outputs {p : Params} {own : Own} {t : Tx} {bm : BlockMeta} (os : List Out) (j : Nat) {S : Book}
    (hW : LocW S) (hf : ∀ gk : GameKey, gk.tx = t.id → S.game gk = none) :
    LocW (foldIdx (depositB own t bm) os j (foldIdx (createB p own t bm) os j S)) := by
  intro u hu
  rw [(depositFold_L ..).1] at hu
  rw [depositFold_game_of _ _ _ _ _ _ _ (Or.inl rfl), createFold_game]
  rcases createFold_origin p own t bm os j S u hu with h | ⟨m, o, _, _, h2, _⟩
  · exact hW u h
  · exact hf _ h2

set_option linter.unusedVariables false in
theorem locW_step {p : Params} {own : Own} {P : List Occ} {B : Book} {oc : Occ}
    (hW : LocW B) (hL : Loc p own B) (hGl : Glob own P B) (h2 : Glob2 P B) (hV : OccValid own P oc) :
    LocW (applyOcc p own B oc) := by
  rw [applyOcc_eq]
  apply locW_outputs
  · have hW1 : LocW (recStep own B oc) := by
      intro u hu
      rw [recStep_L] at hu
      rw [recStep_game]; exact hW u hu
    unfold spendStep
    by_cases hcb : oc.t.cb = true
    · simp only [hcb, if_true]; exact hW1
    · simp only [hcb]; exact spendFold_locW _ _ _ hW1
  · intro gk hk
    rw [spendStep_game_of _ _ _ _ (by rw [recStep_L, hk]; exact glob_L_ne hGl hV.1), recStep_game]
    exact (glob2_fresh h2 hV.1).2 gk hk

theorem locW_fold {p : Params} {own : Own} {P : List Occ} {B : Book} {rest : List Occ} :
    LocW B → Loc p own B → LocG B → Glob own P B → Glob2 P B → ValidFrom own P rest →
      LocW (rest.foldl (applyOcc p own) B) := by
  induction rest generalizing P B with
  | nil => intro hW _ _ _ _ _; exact hW
  | cons oc rest ih =>
    intro hW hL hG hGl h2 hV
    obtain ⟨hV1, hV2⟩ := hV
    obtain ⟨hL1, hG1⟩ := loc_step hL hG hGl hV1
    rw [List.foldl_cons]
    exact ih (locW_step hW hL hGl h2 hV1) hL1 hG1 (glob_step (p := p) hGl hV1) (glob2_step h2 hGl hV1) hV2

theorem locW_nil : LocW {} := by
  intro u hu; exact absurd hu List.not_mem_nil

theorem locW_bookOf {p : Params} {own : Own} {chain : List Block} :
    ChainValid own chain → LocW (bookOf p own chain) := by
  intro h
  unfold bookOf
  exact locW_fold locW_nil (loc_nil p own).1 (loc_nil p own).2 (glob_nil own) glob2_nil h

end MW.Lemmas.Ledger
