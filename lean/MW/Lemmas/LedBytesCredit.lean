/-
  LedBytes, part 2b — the credit VALUE (buckets `c`, `mc`): the typed round trip the codec round left open.
    enc45 c            amount ‖ flag byte ‖ maturity ‖ script hash     (what valueUnspentCredit writes for an unspent credit)
    enc45 c ++ keyDebit dk                                            (what spendCredit leaves: spent bit set, spender appended)
  `readCreditValue` reads `c` back from both (all 12 flag bytes, bit positions from the regenerated tables),
  `readCreditSpender` + `readRawCreditKey` read the spender back; hence the laws of the codecs `cdC`, `cdMC`.
  `spendCreditValue_enc45`: spendCredit's rewrite of the value (table `wSpendCredit`, whose spans OVERLAP: the carried-over
  45 bytes and the flag byte) takes `enc45 c` to `enc45 {c with spent} ++ keyDebit spender` — the fold done by hand.
-/
import MW.Lemmas.LedBytesCodecs
namespace MW.LedBytes
open MW MW.Gen.Codec MW.Model.TxmgrCodec MW.TxmgrCodec MW.Model.Ledger

theorem readAt_append (off len : Nat) (x ext : Bytes) (hl : len ≠ 0) (h : off + len ≤ x.length) :
    readAt off len (x ++ ext) = readAt off len x := by
  unfold readAt
  simp only [hl, if_false]
  rw [List.drop_append_of_le_length (by omega), List.take_append_of_le_length (by simp; omega)]

theorem readVal_append (s : Span) (x ext : Bytes) (hl : s.len ≠ 0) (h : s.off + s.len ≤ x.length) :
    readVal s (x ++ ext) = readVal s x := by
  unfold readVal; rw [readAt_append _ _ _ _ hl h]

theorem decodeBy_append (R : Rec) (x ext : Bytes) (he : R.exact = false) (hsz : R.size ≤ x.length)
    (hsp : ∀ s ∈ R.spans, s.len ≠ 0 ∧ s.off + s.len ≤ x.length) : decodeBy R (x ++ ext) = decodeBy R x := by
  unfold decodeBy guardOk
  simp only [he, Bool.false_eq_true, if_false, List.length_append]
  have h1 : decide (R.size ≤ x.length + ext.length) = true := by simp; omega
  have h2 : decide (R.size ≤ x.length) = true := by simp; omega
  rw [h1, h2]
  simp only [if_true, Option.some.injEq]
  apply List.map_congr_left
  intro s hs
  exact readVal_append s x ext (hsp s hs).1 (hsp s hs).2

theorem flagOf_lt (sp ch : Bool) (cl : ClassB) : flagOf sp ch cl < 256 := by
  cases sp <;> cases ch <;> cases cl <;> decide
theorem credFlag_lt (c : CreditValB) : credFlag c < 256 := flagOf_lt _ _ _

theorem enc45_fits (c : CreditValB) (h : c.WF) :
    Fits wValueUnspentCredit.spans [.n c.amount, .n (credFlag c), .n c.maturity, .b c.scriptHash] = true := by
  have := credFlag_lt c
  have h1 : c.amount < 256 ^ 8 := Nat.lt_of_le_of_lt h.1 (by decide)
  simp [Fits, FitsV, wValueUnspentCredit, Kind.isBytes, h.2.2, h1, this]
  exact h.2.1

theorem enc45_length (c : CreditValB) (h : c.WF) : (enc45 c).length = 45 :=
  encode_length_fixed wValueUnspentCredit _ (by decide) (enc45_fits c h) (by decide)


def readCreditVals (vals : Option (List Val)) : Option CreditValB :=
  match vals, rCreditValue.bits with
  | some [.n amt, .n fl, .n mat, .b sh], [bSpent, bChange, bClass] =>
    if amt > maxAmount then none else
    match creditClassSwitch.lookup (bitField bClass fl) with
    | some "ClassStandardUtxo" => some ⟨amt, bitField bSpent fl ≠ 0, bitField bChange fl ≠ 0, .standard, mat, sh⟩
    | some "ClassStakingUtxo" => some ⟨amt, bitField bSpent fl ≠ 0, bitField bChange fl ≠ 0, .staking, mat, sh⟩
    | some "ClassBindingUtxo" => some ⟨amt, bitField bSpent fl ≠ 0, bitField bChange fl ≠ 0, .binding, mat, sh⟩
    | _ => none
  | _, _ => none

theorem readCreditValue_eq (v : Bytes) : readCreditValue v = readCreditVals (decodeBy rCreditValue v) := rfl

theorem readCreditVals_flag (a m : Nat) (sh : Bytes) (sp ch : Bool) (cl : ClassB) (ha : ¬ a > maxAmount) :
    readCreditVals (some [.n a, .n (flagOf sp ch cl), .n m, .b sh]) = some ⟨a, sp, ch, cl, m, sh⟩ := by
  cases sp <;> cases ch <;> cases cl <;>
    (unfold readCreditVals; simp only [rCreditValue]; rw [if_neg ha]; rfl)

theorem readCreditValue_enc45 (c : CreditValB) (h : c.WF) (ext : Bytes) : readCreditValue (enc45 c ++ ext) = some c := by
  have hf := enc45_fits c h
  have e := decodeBy_encode wValueUnspentCredit rCreditValue _ (by decide) hf (by decide)
  have hl := enc45_length c h
  have ea : decodeBy rCreditValue (enc45 c ++ ext) = decodeBy rCreditValue (enc45 c) :=
    decodeBy_append rCreditValue _ ext rfl (by rw [hl]; decide) (by rw [hl]; decide)
  have hamt : ¬ c.amount > maxAmount := by have := h.1; omega
  rw [readCreditValue_eq, ea]
  unfold enc45
  rw [e]
  exact readCreditVals_flag c.amount c.maturity c.scriptHash c.spent c.change c.cls hamt

theorem keyDebit_length (k : CredKeyB) (h : k.WFd = true) : (keyDebit k).length = 76 :=
  encode_length_fixed wKeyDebit k.vals (by decide) h (by decide)

theorem readCreditSpender_enc (c : CreditValB) (h : c.WF) (dk : CredKeyB) (hd : dk.WFd = true) :
    readCreditSpender (enc45 c ++ keyDebit dk) = some (keyDebit dk) := by
  have hl := enc45_length c h
  have hk := keyDebit_length dk hd
  simp [readCreditSpender, decodeBy, guardOk, rCreditSpender, readVal, readAt, hl, hk]
  exact List.take_of_length_le (by omega)

theorem flagOf_unspent (ch : Bool) (cl : ClassB) :
    flagOf false ch cl = flagByte (bitsAt wValueUnspentCredit 8) [ch, cl = .staking, cl = .binding] := by
  cases ch <;> cases cl <;> decide

/-- **valueUnspentCredit writes `enc45`** (credits are created unspent) -/
theorem valueUnspentCredit_eq (c : CreditValB) (hs : c.spent = false) (hl : c.scriptHash.length = 32) :
    valueUnspentCredit c = .ok (enc45 c) := by
  unfold valueUnspentCredit enc45 credFlag
  simp only [wValueUnspentCredit, hl, ne_eq, not_true_eq_false, if_false, hs]
  rw [← wValueUnspentCredit, flagOf_unspent]

theorem decCredit_enc (x : CreditValB × Option CredKeyB) (h : wfCredit x) : decCredit (encCredit x) = some x := by
  obtain ⟨c, sp⟩ := x
  obtain ⟨hc, hsp, hdk⟩ := h
  cases sp with
  | none =>
    have hs : c.spent = false := hsp
    have hr := readCreditValue_enc45 c hc []
    rw [List.append_nil] at hr
    simp only [decCredit, encCredit, hr, hs, Bool.false_eq_true, if_false, enc45_length c hc]
    rfl
  | some dk =>
    have hs : c.spent = true := hsp
    have hd := hdk dk rfl
    simp only [decCredit, encCredit, readCreditValue_enc45 c hc, hs, if_true, readCreditSpender_enc c hc dk hd,
      readRawCreditKey_keyDebit dk hd]
    rfl

theorem cdC_laws (N : Names) : (cdC N).Laws where
  decK_encK k h := by dsimp only [cdC] at h ⊢; exact readRawCreditKey_keyCredit k h
  decV_encV x h := by dsimp only [cdC] at h ⊢; exact decCredit_enc x h
  nmK_inj _ _ _ _ h := by dsimp only [cdC] at h; exact nmCK_inj N h

theorem cdMC_laws (N : Names) : (cdMC N).Laws where
  decK_encK o h := by dsimp only [cdMC] at h ⊢; exact readUnminedCreditKey_canonicalOutPoint o h
  decV_encV c h := by
    dsimp only [cdMC] at h ⊢
    have hr := readCreditValue_enc45 c h []
    rw [List.append_nil] at hr
    rw [enc45_length c h, hr]; rfl
  nmK_inj _ _ _ _ h := by dsimp only [cdMC] at h; exact nmOP_inj N h

-- ------------------------------------------------------------------ spendCredit's value rewrite

theorem writeAt_mid (A : Bytes) (fb x : UInt8) (R : Bytes) (n : Nat) (hn : n = A.length) :
    writeAt (A ++ fb :: R) n [x] = A ++ x :: R := by
  subst hn; unfold writeAt; simp

theorem writeAt_end (pre src : Bytes) (n off : Nat) (hoff : off = pre.length) (h : src.length ≤ n) :
    writeAt (pre ++ zeros n) off src = (pre ++ src) ++ zeros (n - src.length) := by
  subst hoff; exact writeAt_prefix pre src n h

theorem enc45_split (c : CreditValB) (h : c.WF) :
    enc45 c = be 8 c.amount ++ UInt8.ofNat (credFlag c % 256) :: (be 4 c.maturity ++ c.scriptHash) := by
  rw [enc45, encode_eq_flat _ _ (by decide) (enc45_fits c h)]
  have hsh : c.scriptHash.take 32 = c.scriptHash := List.take_of_length_le (by rw [h.2.2]; exact Nat.le_refl _)
  simp [flat, wValueUnspentCredit, spanBytes, be, hsh]


def readAmtSpentVals (vals : Option (List Val)) : Option (Nat × Bool) :=
  match vals, rCreditAmountSpent.bits with
  | some [.n amt, .n fl], [bSpent] => if amt > maxAmount then none else some (amt, bitField bSpent fl ≠ 0)
  | _, _ => none

theorem fetchRawCreditAmountSpent_eq (v : Bytes) :
    fetchRawCreditAmountSpent v = readAmtSpentVals (decodeBy rCreditAmountSpent v) := rfl

theorem readAmtSpentVals_some (a f : Nat) (ha : ¬ a > maxAmount) :
    (readAmtSpentVals (some [.n a, .n f])).isNone = false := by
  unfold readAmtSpentVals; simp only [rCreditAmountSpent]; rw [if_neg ha]; rfl

theorem fetchAmountSpent_enc45 (c : CreditValB) (h : c.WF) : (fetchRawCreditAmountSpent (enc45 c)).isNone = false := by
  have e := decodeBy_encode wValueUnspentCredit rCreditAmountSpent _ (by decide) (enc45_fits c h) (by decide)
  have hamt : ¬ c.amount > maxAmount := by have := h.1; omega
  rw [fetchRawCreditAmountSpent_eq]
  unfold enc45
  rw [e]
  exact readAmtSpentVals_some c.amount (credFlag c) hamt

/-- the flag byte after `v[8] |= 1 << 0` is the flag byte of the spent credit -/
theorem flag_spend (ch : Bool) (cl : ClassB) :
    UInt8.ofNat ((bitsAt wSpendCredit 8).foldl
        (fun a b => if b.set then a ||| (b.mask <<< b.bit) else a &&& (255 - (b.mask <<< b.bit)))
        (UInt8.ofNat (flagOf false ch cl % 256)).toNat)
      = UInt8.ofNat (flagOf true ch cl % 256) := by
  cases ch <;> cases cl <;> decide

theorem updByte_mid (A : Bytes) (fb : UInt8) (R : Bytes) (bits : List Bit) (n : Nat) (hn : n = A.length) :
    updByte (A ++ fb :: R) n bits = A ++ UInt8.ofNat (bits.foldl
        (fun a b => if b.set then a ||| (b.mask <<< b.bit) else a &&& (255 - (b.mask <<< b.bit))) fb.toNat) :: R := by
  subst hn
  unfold updByte
  simp


theorem encode_spend (A : Bytes) (fb : UInt8) (B dh dbh : Bytes) (dht di : Nat) (hA : A.length = 8) (hB : B.length = 36)
    (hdh : dh.length = 32) (hdbh : dbh.length = 32) :
    encode wSpendCredit [.b (A ++ fb :: B), .n 0, .b dh, .n dht, .b dbh, .n di]
      = (A ++ 0 :: B) ++ (dh ++ (be 8 dht ++ (dbh ++ be 4 di))) := by
  have hv : (A ++ fb :: B).length = 45 := by simp [hA, hB]
  have t0 : (A ++ fb :: B).take 45 = A ++ fb :: B := List.take_of_length_le (by omega)
  have t1 : dh.take 32 = dh := List.take_of_length_le (by omega)
  have t2 : dbh.take 32 = dbh := List.take_of_length_le (by omega)
  show encodeN 121 wSpendCredit _ = _
  unfold encodeN
  simp only [wSpendCredit, List.zip_cons_cons, List.zip_nil_right, List.foldl_cons, List.foldl_nil, spanBytes]
  simp only [t0, t1, t2, ite_self]
  have hb10 : be 1 0 = [0] := by decide
  have z : zeros 121 = [] ++ zeros 121 := rfl
  rw [z, writeAt_end [] (A ++ fb :: B) 121 0 rfl (by omega), hb10]
  simp only [List.nil_append, hv]
  rw [List.append_assoc, List.cons_append, writeAt_mid A fb 0 (B ++ zeros (121 - 45)) 8 hA.symm]
  have e1 : A ++ 0 :: (B ++ zeros (121 - 45)) = (A ++ 0 :: B) ++ zeros 76 := by simp
  have hp : (A ++ 0 :: B).length = 45 := by simp [hA, hB]
  rw [e1, writeAt_end _ dh 76 45 hp.symm (by omega)]
  rw [writeAt_end _ (be 8 dht) (76 - dh.length) 77 (by simp [hA, hB, hdh]) (by simp [be_length, hdh])]
  rw [writeAt_end _ dbh _ 85 (by simp [hA, hB, hdh, be_length]) (by simp [be_length, hdh, hdbh])]
  rw [writeAt_end _ (be 4 di) _ 117 (by simp [hA, hB, hdh, hdbh, be_length]) (by simp [be_length, hdh, hdbh])]
  simp [be_length, hdh, hdbh, zeros]

theorem spendCreditValue_enc45 (c : CreditValB) (h : c.WF) (hs : c.spent = false) (dk : CredKeyB) (hd : dk.WFd = true) :
    spendCreditValue (enc45 c) dk = .ok (enc45 { c with spent := true } ++ keyDebit dk) := by
  have hl := enc45_length c h
  have hfa := fetchAmountSpent_enc45 c h
  have h' : ({ c with spent := true } : CreditValB).WF := h
  obtain ⟨dh, ⟨dht, dbh⟩, di⟩ := dk
  have hd' := hd
  simp [CredKeyB.WFd, CredKeyB.vals, Fits, FitsV, wKeyDebit, Kind.isBytes] at hd'
  obtain ⟨hdh, hdht, hdbh, hdi⟩ := hd'
  have hkd : keyDebit ⟨dh, ⟨dht, dbh⟩, di⟩ = dh ++ (be 8 dht ++ (dbh ++ be 4 di)) := by
    rw [keyDebit, encode_eq_flat _ _ (by decide) hd]
    have t1 : dh.take 32 = dh := List.take_of_length_le (by omega)
    have t2 : dbh.take 32 = dbh := List.take_of_length_le (by omega)
    simp [flat, wKeyDebit, spanBytes, CredKeyB.vals, t1, t2]
  have hsp : wSpendCredit.spans = [⟨"old", 0, 45, .bytes⟩, ⟨"flag8", 8, 1, .byte⟩, ⟨"spender.txHash", 45, 32, .bytes⟩,
      ⟨"spender.block.Height", 77, 8, .uint⟩, ⟨"spender.block.Hash", 85, 32, .bytes⟩, ⟨"spender.index", 117, 4, .uint⟩] := rfl
  unfold spendCreditValue
  rw [hsp]
  simp only [hl, ne_eq, not_true_eq_false, if_false, hfa, Bool.false_eq_true]
  rw [hkd, enc45_split c h, enc45_split _ h']
  simp only [CredKeyB.vals, List.cons_append, List.nil_append]
  have hA : (be 8 c.amount).length = 8 := be_length _ _
  have hB : (be 4 c.maturity ++ c.scriptHash).length = 36 := by simp [be_length, h.2.2]
  rw [encode_spend _ _ _ dh dbh dht di hA hB hdh hdbh]
  have hr : readAt 8 1 (be 8 c.amount ++ UInt8.ofNat (credFlag c % 256) :: (be 4 c.maturity ++ c.scriptHash))
      = [UInt8.ofNat (credFlag c % 256)] := by
    unfold readAt
    simp [hA]
  rw [hr, List.append_assoc, List.cons_append, writeAt_mid _ _ _ _ 8 hA.symm, updByte_mid _ _ _ _ 8 hA.symm]
  have hf : credFlag c = flagOf false c.change c.cls := by rw [credFlag, hs]
  have hf' : credFlag { c with spent := true } = flagOf true c.change c.cls := rfl
  rw [hf, hf', flag_spend]
  simp

end MW.LedBytes
