/-
  LedBytes, part 2b — the credit VALUE (buckets `c`, `mc`): the typed round trip the codec round left open.
    enc45 c            amount ‖ flag byte ‖ maturity ‖ script hash     (what valueUnspentCredit writes for an unspent credit)
    enc45 c ++ keyDebit dk                                            (what spendCredit leaves: spent bit set, spender appended)
  `readCreditValue` reads `c` back from both (all 12 flag bytes, bit positions from the regenerated tables),
  `readCreditSpender` + `readRawCreditKey` read the spender back; hence the laws of the codecs `cdC`, `cdMC`.
-/
import MW.Lemmas.LedBytesCodecs
namespace MW.LedBytes
open MW MW.Gen.Codec MW.Model.TxmgrCodec MW.TxmgrCodec MW.Model.Ledger

theorem readAt_append (off len : Nat) (x ext : Bytes) (hl : len ≠ 0) (h : off + len ≤ x.length) :
    readAt off len (x ++ ext) = readAt off len x := by
  unfold readAt
  simp only [hl, if_false]
  rw [List.drop_append_of_le_length (by omega), List.take_append_of_le_length (by simp; omega)]

theorem readVal_append (s : Span) (x ext : Bytes) (hl : s.len ≠ 0) (h : s.off + s.len ≤ x.length) :
    readVal s (x ++ ext) = readVal s x := by
  unfold readVal; rw [readAt_append _ _ _ _ hl h]

theorem decodeBy_append (R : Rec) (x ext : Bytes) (he : R.exact = false) (hsz : R.size ≤ x.length)
    (hsp : ∀ s ∈ R.spans, s.len ≠ 0 ∧ s.off + s.len ≤ x.length) : decodeBy R (x ++ ext) = decodeBy R x := by
  unfold decodeBy guardOk
  simp only [he, Bool.false_eq_true, if_false, List.length_append]
  have h1 : decide (R.size ≤ x.length + ext.length) = true := by simp; omega
  have h2 : decide (R.size ≤ x.length) = true := by simp; omega
  rw [h1, h2]
  simp only [if_true, Option.some.injEq]
  apply List.map_congr_left
  intro s hs
  exact readVal_append s x ext (hsp s hs).1 (hsp s hs).2

theorem flagOf_lt (sp ch : Bool) (cl : ClassB) : flagOf sp ch cl < 256 := by
  cases sp <;> cases ch <;> cases cl <;> decide
theorem credFlag_lt (c : CreditValB) : credFlag c < 256 := flagOf_lt _ _ _

theorem enc45_fits (c : CreditValB) (h : c.WF) :
    Fits wValueUnspentCredit.spans [.n c.amount, .n (credFlag c), .n c.maturity, .b c.scriptHash] = true := by
  have := credFlag_lt c
  have h1 : c.amount < 256 ^ 8 := Nat.lt_of_le_of_lt h.1 (by decide)
  simp [Fits, FitsV, wValueUnspentCredit, Kind.isBytes, h.2.2, h1, this]
  exact h.2.1

theorem enc45_length (c : CreditValB) (h : c.WF) : (enc45 c).length = 45 :=
  encode_length_fixed wValueUnspentCredit _ (by decide) (enc45_fits c h) (by decide)


def readCreditVals (vals : Option (List Val)) : Option CreditValB :=
  match vals, rCreditValue.bits with
  | some [.n amt, .n fl, .n mat, .b sh], [bSpent, bChange, bClass] =>
    if amt > maxAmount then none else
    match creditClassSwitch.lookup (bitField bClass fl) with
    | some "ClassStandardUtxo" => some ⟨amt, bitField bSpent fl ≠ 0, bitField bChange fl ≠ 0, .standard, mat, sh⟩
    | some "ClassStakingUtxo" => some ⟨amt, bitField bSpent fl ≠ 0, bitField bChange fl ≠ 0, .staking, mat, sh⟩
    | some "ClassBindingUtxo" => some ⟨amt, bitField bSpent fl ≠ 0, bitField bChange fl ≠ 0, .binding, mat, sh⟩
    | _ => none
  | _, _ => none

theorem readCreditValue_eq (v : Bytes) : readCreditValue v = readCreditVals (decodeBy rCreditValue v) := rfl

theorem readCreditVals_flag (a m : Nat) (sh : Bytes) (sp ch : Bool) (cl : ClassB) (ha : ¬ a > maxAmount) :
    readCreditVals (some [.n a, .n (flagOf sp ch cl), .n m, .b sh]) = some ⟨a, sp, ch, cl, m, sh⟩ := by
  cases sp <;> cases ch <;> cases cl <;>
    (unfold readCreditVals; simp only [rCreditValue]; rw [if_neg ha]; rfl)

theorem readCreditValue_enc45 (c : CreditValB) (h : c.WF) (ext : Bytes) : readCreditValue (enc45 c ++ ext) = some c := by
  have hf := enc45_fits c h
  have e := decodeBy_encode wValueUnspentCredit rCreditValue _ (by decide) hf (by decide)
  have hl := enc45_length c h
  have ea : decodeBy rCreditValue (enc45 c ++ ext) = decodeBy rCreditValue (enc45 c) :=
    decodeBy_append rCreditValue _ ext rfl (by rw [hl]; decide) (by rw [hl]; decide)
  have hamt : ¬ c.amount > maxAmount := by have := h.1; omega
  rw [readCreditValue_eq, ea]
  unfold enc45
  rw [e]
  exact readCreditVals_flag c.amount c.maturity c.scriptHash c.spent c.change c.cls hamt

theorem keyDebit_length (k : CredKeyB) (h : k.WFd = true) : (keyDebit k).length = 76 :=
  encode_length_fixed wKeyDebit k.vals (by decide) h (by decide)

theorem readCreditSpender_enc (c : CreditValB) (h : c.WF) (dk : CredKeyB) (hd : dk.WFd = true) :
    readCreditSpender (enc45 c ++ keyDebit dk) = some (keyDebit dk) := by
  have hl := enc45_length c h
  have hk := keyDebit_length dk hd
  simp [readCreditSpender, decodeBy, guardOk, rCreditSpender, readVal, readAt, hl, hk]
  exact List.take_of_length_le (by omega)

theorem flagOf_unspent (ch : Bool) (cl : ClassB) :
    flagOf false ch cl = flagByte (bitsAt wValueUnspentCredit 8) [ch, cl = .staking, cl = .binding] := by
  cases ch <;> cases cl <;> decide

/-- **valueUnspentCredit writes `enc45`** (credits are created unspent) -/
theorem valueUnspentCredit_eq (c : CreditValB) (hs : c.spent = false) (hl : c.scriptHash.length = 32) :
    valueUnspentCredit c = .ok (enc45 c) := by
  unfold valueUnspentCredit enc45 credFlag
  simp only [wValueUnspentCredit, hl, ne_eq, not_true_eq_false, if_false, hs]
  rw [← wValueUnspentCredit, flagOf_unspent]

theorem decCredit_enc (x : CreditValB × Option CredKeyB) (h : wfCredit x) : decCredit (encCredit x) = some x := by
  obtain ⟨c, sp⟩ := x
  obtain ⟨hc, hsp, hdk⟩ := h
  cases sp with
  | none =>
    have hs : c.spent = false := hsp
    have hr := readCreditValue_enc45 c hc []
    rw [List.append_nil] at hr
    simp only [decCredit, encCredit, hr, hs, Bool.false_eq_true, if_false, enc45_length c hc]
    rfl
  | some dk =>
    have hs : c.spent = true := hsp
    have hd := hdk dk rfl
    simp only [decCredit, encCredit, readCreditValue_enc45 c hc, hs, if_true, readCreditSpender_enc c hc dk hd,
      readRawCreditKey_keyDebit dk hd]
    rfl

theorem cdC_laws (N : Names) : (cdC N).Laws where
  decK_encK k h := by dsimp only [cdC] at h ⊢; exact readRawCreditKey_keyCredit k h
  decV_encV x h := by dsimp only [cdC] at h ⊢; exact decCredit_enc x h
  nmK_inj _ _ _ _ h := by dsimp only [cdC] at h; exact nmCK_inj N h

theorem cdMC_laws (N : Names) : (cdMC N).Laws where
  decK_encK o h := by dsimp only [cdMC] at h ⊢; exact readUnminedCreditKey_canonicalOutPoint o h
  decV_encV c h := by
    dsimp only [cdMC] at h ⊢
    have hr := readCreditValue_enc45 c h []
    rw [List.append_nil] at hr
    rw [enc45_length c h, hr]; rfl
  nmK_inj _ _ _ _ h := by dsimp only [cdMC] at h; exact nmOP_inj N h

end MW.LedBytes
