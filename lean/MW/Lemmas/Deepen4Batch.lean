/-
  C06 deepening (round 4), part 2: THE RESCAN BATCH OF THE PERSISTENCE MODEL AND C07's JOINED INVARIANT `IJ`.

  * `ij_minedEq`: `IJ` reads only mined buckets, balances, status, height table and synced-to.
  * `importStep_ij`: one batch (`opImportStep`) against a node chain that may differ from the chain `X` the store
    follows keeps `IJ … X` — it fails the followed-chain check (nothing changes) or is the batch against `X`
    (the case `batch` of `ImportFull.stepG_inv`, without the `KeysNodup unspent` conjunct).
  * `importLoop_ij`: when the follower is caught up with the node the worker loop finishes (fuel = length of the
    chain suffices) and ends in the right disjunct of `IJ`.
-/
import MW.Lemmas.Deepen4World
namespace MW.Lemmas.Deepen4
open MW MW.Model.Ledger MW.Model.Persist MW.Spec.Persist MW.Spec.Chain MW.Spec.Books MW.Lemmas.Ledger
  MW.Lemmas.PersistOp MW.Lemmas.PersistFault MW.Lemmas.PersistCrash MW.Lemmas.Deepen3 MW.Lemmas.ImportJoin
open MW.Model.Import MW.Lemmas.ImportExact MW.Lemmas.ImportNode MW.Lemmas.ImportReorg

-- ------------------------------------------------------------------ 1. `IJ` does not read the pending buckets

theorem scanJS_minedEq {c : Ctx} {w : Wid} {s s' : Store} {X : List Block} {k : Nat} (h : MinedEq s s')
    (hS : ScanJS c w s X k) : ScanJS c w s' X k := by
  have hr : readyWallets s' c.wallets = readyWallets s c.wallets := MW.Lemmas.Ledger.readyWallets_congr h.status _
  refine ⟨⟨?_, ?_, ?_, ?_, ?_⟩, ?_, ?_, ?_, ?_, ?_, ?_⟩
  · intro w' tx idx; rw [h.unspent]; exact hS.agree.unspent w' tx idx
  · intro k'; rw [h.credits]; exact hS.agree.credits k'
  · intro k'; rw [h.debits]; exact hS.agree.debits k'
  · intro k'; rw [h.game]; exact hS.agree.game k'
  · intro k'; rw [h.txrecs]; exact hS.agree.txrecs k'
  · exact blocksOK_congr hS.blocks (fun _ => by rw [h.txrecs]) (fun _ => by rw [h.blocks])
  · exact txPos_congr hS.txpos (fun _ => by rw [h.txrecs])
  · rw [h.balance]; exact hS.bal
  · intro w' hw' hrw
    rw [h.balance]
    apply hS.balR w' hw'
    rw [← hr]; exact hrw
  · intro k'; rw [h.sync]; exact hS.sync k'
  · rw [h.syncedTo]; exact hS.syncedTo

theorem ij_minedEq {c : Ctx} {w : Wid} {s s' : Store} {X : List Block} (h : MinedEq s s') (hI : IJ c w s X) :
    IJ c w s' X := by
  have hr : readyWallets s' c.wallets = readyWallets s c.wallets := MW.Lemmas.Ledger.readyWallets_congr h.status _
  rcases hI with ⟨ws, k, hst, hk, hrm, hle, hS, hAR, hne⟩ | ⟨hst, hI, hAR⟩
  · exact Or.inl ⟨ws, k, by rw [h.status]; exact hst, hk, hrm, hle, scanJS_minedEq h hS, by rw [hr]; exact hAR,
      by rw [hr]; exact hne⟩
  · exact Or.inr ⟨by rw [h.status]; exact hst, inv_minedEq h hI, by rw [hr]; exact hAR⟩

-- ------------------------------------------------------------------ one batch against the followed chain, all facts

/-- `ij_batch` of ImportFull with what `importStep_scanJ` says besides: the other wallets' balances and status are
    untouched and the new status of `w` is `statusAfter … (nextStop …)` -/
theorem ij_batch_full {batch : Nat} (hb : batch > 0) {c : Ctx} {w : Wid} (hKN : KeysNodup c.own)
    (hC : MW.Lemmas.ImportExact.ChainOK c)
    (hw : w ∈ c.wallets) {s : Store} {v : Vol} {ws : WStatus} {k : Nat} (hS : ScanJ c w s k)
    (hst : AMap.get s.status w = some ws) (hk : ws.synced = some k) (hrm : ws.removed = false)
    (hbest : v.best.height + 1 = c.node.chain.length) (hle : k ≤ v.best.height) (hnw : k + batch < 2 ^ 64)
    (hAR : AllReady (ownR c.own w) (readyWallets s c.wallets)) (hne : (readyWallets s c.wallets).isEmpty = false) :
    ∃ s1 v1 fin, importStep batch c w s v = .ok (s1, v1, fin) ∧ IJ c w s1 c.node.chain ∧ v1.best = v.best ∧
      OthersSame w s s1 ∧
      AMap.get s1.status w = some (statusAfter ws (nextStop batch k v.best.height) v.best.height) := by
  obtain ⟨s1, v1, fin, h1, hIJ1, hv1, _⟩ := ij_batch hb hKN hC hw hS hst hk hrm hbest hle hnw hAR hne
  obtain ⟨s2, v2, h2, _, hst2, _, hO2⟩ := importStep_scanJ hb hKN hC hS (List.contains_iff_mem.2 hw) hst hk hbest hle hnw
  rw [h1] at h2
  injection h2 with h2
  injection h2 with hs h2
  subst hs
  exact ⟨s1, v1, fin, h1, hIJ1, hv1, hO2, hst2⟩

theorem readyB_status_congr {s s' : Store} {w : Wid} (h : AMap.get s'.status w = AMap.get s.status w) :
    readyB s' w = readyB s w := by
  unfold readyB; rw [h]

theorem importDone_false_iff {P : PStore} {w : Wid} {ws : WStatus} {k : Nat} (hst : AMap.get P.led.status w = some ws)
    (hk : ws.synced = some k) : importDone P w = false := by
  unfold importDone; rw [hst]; simp [hk]

-- ------------------------------------------------------------------ 2. one batch of the persistence model

set_option linter.unusedVariables false in
/-- **one rescan batch through the persistence model**, any outcome, any relation between the node's chain and the
    chain `X` the store follows -/
theorem importStep_ij {st : Static} {G : Block} (E : StaticOK st G) {ks : AMap.T Wid KsRec} {chain X : List Block}
    (hN : MW.Lemmas.Ledger.ChainOK (lenv st ks) G chain) (hX : MW.Lemmas.Ledger.ChainOK (lenv st ks) G X)
    (batch n : Nat) (hb : batch > 0)
    (hlenN : chain.length + batch < 2 ^ 64) (hlenX : X.length + batch < 2 ^ 64)
    {P : PStore} {V : PVol} {w : Wid} (hks : P.ks = ks) (hkeys : V.keys = ks)
    (hKN : KeysNodup (ownOf ks)) (hw : w ∈ walletsOf ks)
    (hI : IJ ((lenv st ks).ctx chain) w P.led X) (hv : V.led.best = tipMeta X) (hnd : importDone P w = false) :
    ((opImportStep batch n (envAt st chain) w).run none P V).P.ks = ks ∧
    ((opImportStep batch n (envAt st chain) w).run none P V).V.keys = ks ∧
    ((opImportStep batch n (envAt st chain) w).run none P V).V.tasks = V.tasks ∧
    IJ ((lenv st ks).ctx chain) w ((opImportStep batch n (envAt st chain) w).run none P V).P.led X ∧
    ((opImportStep batch n (envAt st chain) w).run none P V).V.led.best = V.led.best ∧
    (∀ w', w' ≠ w → readyB ((opImportStep batch n (envAt st chain) w).run none P V).P.led w' = readyB P.led w') := by
  subst hkeys
  have hinj : IdInj (X ++ chain) := idInj_of_known (known := st.known) (fun x hx => by
    rcases List.mem_append.1 hx with h | h
    · exact hX.known x h
    · exact hN.known x h)
  rcases hI with ⟨ws, k, hst, hk, hrm, hle, hS, hAR, hne⟩ | ⟨hst, _, _⟩
  · have hbestX := best_of_tip hX.good hv
    -- the batch run against the follower's own chain
    obtain ⟨s1, v1, fin, h1, hIJ1, hv1, hO1, _⟩ := ij_batch_full hb
      (c := (lenv st V.keys).ctx X) (w := w) hKN ⟨hX.valid, hX.good.heights⟩ hw (s := P.led) (v := V.led)
      (⟨hS.agree, hS.blocks, hS.txpos, hS.bal, hS.balR, hS.sync, hS.syncedTo⟩ : ScanJ _ w P.led k)
      hst hk hrm hbestX (by omega) (by omega) hAR hne
    -- either the batch against the node's chain is that batch, or it fails
    have hcases : importStep batch ((lenv st V.keys).ctx chain) w P.led V.led = .ok (s1, v1, fin) ∨
        ∃ e, importStep batch ((lenv st V.keys).ctx chain) w P.led V.led = .error e := by
      by_cases hkb : V.led.best.height ≤ k
      · left
        rw [importStep_node_empty batch ((lenv st V.keys).ctx chain) { chain := X, known := st.known } w P.led V.led ws k
          hst hk hkb (by omega)]
        exact h1
      · have hcur : cursorU64 ws = k := by simp [cursorU64, hk]
        have hstopeq := batchStop_eq batch k V.led.best.height (by omega)
        have hstop_le : nextStop batch k V.led.best.height ≤ V.led.best.height := by unfold nextStop; split <;> omega
        have hstop_gt : k < nextStop batch k V.led.best.height := by unfold nextStop; split <;> omega
        by_cases hag : agrees ((lenv st V.keys).ctx chain) P.led (nextStop batch k V.led.best.height) = true
        · left
          -- the node's block at the top of the range is the follower's: the chains agree up to there
          have hxl : nextStop batch k V.led.best.height < X.length := by omega
          have hx : X[nextStop batch k V.led.best.height]? = some X[nextStop batch k V.led.best.height] :=
            List.getElem?_eq_getElem hxl
          unfold agrees Node.blockAt at hag
          rw [hS.sync, syncOf, hx] at hag
          cases hy : chain[nextStop batch k V.led.best.height]? with
          | none =>
            have : ((lenv st V.keys).ctx chain).node.chain[nextStop batch k V.led.best.height]? = none := hy
            rw [this] at hag; simp at hag
          | some y =>
            have hy' : ((lenv st V.keys).ctx chain).node.chain[nextStop batch k V.led.best.height]? = some y := hy
            rw [hy'] at hag
            simp only [Option.map_some, beq_iff_eq] at hag
            have hpre := prefix_of_id hX.good hN.good hinj _ _ _ hx hy hag.symm
            rw [importStep_node_congr batch ((lenv st V.keys).ctx chain) { chain := X, known := st.known } w P.led V.led ws
              hst (by rw [hcur, hstopeq]; exact hpre.symm)]
            exact h1
        · right
          refine ⟨.continuable, ?_⟩
          unfold importStep batchHead
          have hwc : ((lenv st V.keys).ctx chain).wallets.contains w = true := List.contains_iff_mem.2 hw
          simp only [hwc, Bool.not_true, Bool.false_eq_true, if_false, hst, hS.bal, hcur, hstopeq]
          have hgt : nextStop batch k V.led.best.height > k := hstop_gt
          simp [hgt, hag]
    rw [importStep_none, ctx_eq]
    rcases hcases with hok | ⟨e, herr⟩
    · rw [hok]
      refine ⟨hks, rfl, rfl, ij_node (c := (lenv st V.keys).ctx X) { chain := chain, known := st.known } hIJ1, hv1, ?_⟩
      intro w' hw'
      exact readyB_status_congr (hO1.2.1 w' hw')
    · rw [herr]
      exact ⟨hks, rfl, rfl, Or.inl ⟨ws, k, hst, hk, hrm, hle, hS, hAR, hne⟩, rfl, fun _ _ => rfl⟩
  · unfold importDone at hnd
    rw [hst] at hnd
    simp at hnd

-- ------------------------------------------------------------------ 3. the worker loop, follower caught up

set_option linter.unusedVariables false in
/-- **the rescan finishes**: with the follower caught up with the node (`X = chain`) the worker loop, given fuel
    `chain.length`, ends with `w` ready, C01's invariant for the whole instance and the other wallets as they were -/
theorem importLoop_ij {st : Static} {G : Block} (E : StaticOK st G) {ks : AMap.T Wid KsRec} {chain : List Block}
    (hN : MW.Lemmas.Ledger.ChainOK (lenv st ks) G chain) (batch n : Nat) (hb : batch > 0)
    (hlenN : chain.length + batch < 2 ^ 64)
    {w : Wid} (hKN : KeysNodup (ownOf ks)) (hw : w ∈ walletsOf ks) :
    ∀ (fuel : Nat) (P : PStore) (V : PVol), P.ks = ks → V.keys = ks →
      IJ ((lenv st ks).ctx chain) w P.led chain → V.led.best = tipMeta chain → importDone P w = false →
      chain.length ≤ fuel →
      ∃ P' V', importLoop batch n (envAt st chain) w fuel P V = some (P', V') ∧ P'.ks = ks ∧ V'.keys = ks ∧
        V'.tasks = V.tasks ∧ V'.led.best = V.led.best ∧
        AMap.get P'.led.status w = some ⟨none, false⟩ ∧
        MW.Lemmas.Ledger.Inv ((lenv st ks).ctx chain) P'.led chain ∧
        AllReady (ownOf ks) (readyWallets P'.led (walletsOf ks)) ∧
        (∀ w', w' ≠ w → readyB P'.led w' = readyB P.led w') := by
  have key : ∀ (fuel : Nat) (P : PStore) (V : PVol) (ws : WStatus) (k : Nat), P.ks = ks → V.keys = ks →
      IJ ((lenv st ks).ctx chain) w P.led chain → V.led.best = tipMeta chain →
      AMap.get P.led.status w = some ws → ws.synced = some k → V.led.best.height - k < fuel →
      ∃ P' V', importLoop batch n (envAt st chain) w fuel P V = some (P', V') ∧ P'.ks = ks ∧ V'.keys = ks ∧
        V'.tasks = V.tasks ∧ V'.led.best = V.led.best ∧
        AMap.get P'.led.status w = some ⟨none, false⟩ ∧
        MW.Lemmas.Ledger.Inv ((lenv st ks).ctx chain) P'.led chain ∧
        AllReady (ownOf ks) (readyWallets P'.led (walletsOf ks)) ∧
        (∀ w', w' ≠ w → readyB P'.led w' = readyB P.led w') := by
    intro fuel
    induction fuel with
    | zero => intro P V ws k _ _ _ _ _ _ h; omega
    | succ f ih =>
      intro P V ws k hks hkeys hI hv hst hk hfuel
      have hbest := best_of_tip hN.good hv
      rcases hI with ⟨ws0, k0, hst0, hk0, hrm, hle, hS, hAR, hne⟩ | ⟨hst0, _, _⟩
      · rw [hst] at hst0
        cases hst0
        rw [hk] at hk0
        cases hk0
        obtain ⟨s1, v1, fin, h1, hIJ1, hv1, hO1, hst1⟩ := ij_batch_full hb
          (c := (lenv st ks).ctx chain) (w := w) hKN ⟨hN.valid, hN.good.heights⟩ hw (s := P.led) (v := V.led)
          (scanJ_of_scanJS hS) hst hk hrm hbest (by omega) (by omega) hAR hne
        have hIJ1' : IJ ((lenv st ks).ctx chain) w s1 chain := hIJ1
        have hrun : (opImportStep batch n (envAt st chain) w).run none P V =
            ⟨true, { P with led := s1 }, { V with led := v1 }, 1, 1 + n + 1⟩ := by
          rw [importStep_none, ctx_eq, hkeys, h1]
        rw [importLoop_succ, hrun]
        simp only [Bool.not_true, Bool.false_eq_true, if_false]
        have hoth : ∀ w', w' ≠ w → readyB s1 w' = readyB P.led w' :=
          fun w' hw' => readyB_status_congr (hO1.2.1 w' hw')
        by_cases hd : importDone { P with led := s1 } w = true
        · rw [if_pos hd]
          rcases hIJ1' with ⟨ws1, k1, hs1, hk1, _⟩ | ⟨hdone, hInv, hAR1⟩
          · have := importDone_false_iff (P := { P with led := s1 }) hs1 hk1
            rw [this] at hd; cases hd
          · exact ⟨_, _, rfl, hks, hkeys, rfl, hv1, hdone, hInv, hAR1, hoth⟩
        · rw [if_neg hd]
          rcases hIJ1' with ⟨ws1, k1, hs1, hk1, hrm1, hle1, hS1, hAR1, hne1⟩ | ⟨hdone, _, _⟩
          · have hk1eq : k < k1 ∧ k1 ≤ V.led.best.height := by
              have hA : nextStop batch k V.led.best.height ≤ V.led.best.height := by unfold nextStop; split <;> omega
              have hB : nextStop batch k V.led.best.height ≠ V.led.best.height →
                  k < nextStop batch k V.led.best.height := by unfold nextStop; split <;> omega
              rw [hst1] at hs1
              cases hs1
              unfold statusAfter at hk1
              simp only at hk1
              split at hk1
              · cases hk1
              · rename_i hne'
                cases hk1
                exact ⟨hB hne', hA⟩
            obtain ⟨P', V', hl, a1, a2, a3, a4, a5, a6, a7, a8⟩ :=
              ih { P with led := s1 } { V with led := v1 } ws1 k1 hks hkeys
                (Or.inl ⟨ws1, k1, hs1, hk1, hrm1, hle1, hS1, hAR1, hne1⟩)
                (by show v1.best = _; rw [hv1]; exact hv) hs1 hk1 (by show v1.best.height - k1 < f; rw [hv1]; omega)
            refine ⟨P', V', hl, a1, a2, a3, a4.trans hv1, a5, a6, a7, fun w' hw' => (a8 w' hw').trans (hoth w' hw')⟩
          · exfalso
            apply hd
            unfold importDone
            show (match AMap.get s1.status w with | some stt => stt.synced.isNone | none => true) = true
            rw [hdone]; rfl
      · rw [hst] at hst0; cases hst0; cases hk
  intro fuel P V hks hkeys hI hv hnd hfuel
  have hbest := best_of_tip hN.good hv
  cases hst : AMap.get P.led.status w with
  | none => unfold importDone at hnd; rw [hst] at hnd; cases hnd
  | some ws =>
    cases hk : ws.synced with
    | none => unfold importDone at hnd; rw [hst] at hnd; simp [hk] at hnd
    | some k => exact key fuel P V ws k hks hkeys hI hv hst hk (by omega)

end MW.Lemmas.Deepen4
