/-
  C06 deepening (round 4), part 1: THE WORLD WITH BACKGROUND TASKS.

  `SysQ` of round 3 (node chain, volatile notification queue, persistent store, volatile state) with four more
  kinds of events: ImportWallet (`importStart`: keystore bucket + cache entry + status "importing from 0" + address
  records in ONE Update, then the task is queued), one batch of the worker's rescan (`importStep`, the `Op` of
  Deepen3Task on C07's `importStep`), RemoveWallet (`removeMark`: the flag, then the task is queued), one iteration
  of the worker's removal (`removeStep`, C08's `removeStep` as an `Op`), and `importDrain` / `removeDrain`: the worker
  runs its queued task to the end.  The worker only ever runs a task that is IN THE QUEUE (`PVol.tasks`): after a crash it is
  `initTaskChan` (`requeue`, run by `Model.Persist.crash`) that puts it there again.  (It also looks at the stored
  status: a queued task for a wallet that is ready / gone is skipped — the code queues tasks for unfinished wallets
  only, `OnImportWallet` under `!ws.Ready()`, `initTaskChan` from the stored status.)

  The hypotheses on a history again live on a SKELETON that does not depend on the crashes: C06's `Skel` plus the
  notification queue of the run that never stops plus the task window (`busy`).
-/
import MW.Lemmas.Deepen3Crash
import MW.Lemmas.Deepen3Task
import MW.Lemmas.ImportFull
namespace MW.Lemmas.Deepen4
open MW MW.Model.Ledger MW.Model.Persist MW.Spec.Persist MW.Spec.Chain MW.Spec.Books MW.Lemmas.Ledger
  MW.Lemmas.PersistOp MW.Lemmas.PersistFault MW.Lemmas.PersistCrash MW.Lemmas.Deepen3 MW.Lemmas.ImportJoin

-- ------------------------------------------------------------------ ImportWallet as an operation

/-- ImportWallet / ImportWalletWithMnemonic: ONE Update — ImportKeystore (bucket, then the cache entry as the last
    statement of the keystore manager), InitNewWallet (balance 0), PutWalletStatus (cursor 0; done when the keystore
    manages no address), PutNewAddress per managed address (`Model.Import.importWalletStore`); on failure
    RemoveCachedKeystore; after the commit OnImportWallet queues the rescan unless the wallet is ready at once. -/
def opImportStart (n : Nat) (w : Wid) (r : KsRec) : Op :=
  { phases := [
      ⟨n, fun P V => if (AMap.get P.ks w).isSome then .error .duplicate
                      else .ok ({ P with ks := AMap.put P.ks w r }, V)⟩,
      ⟨0, fun P V => .ok (P, { V with keys := AMap.put V.keys w r })⟩,
      ⟨n, fun P V => .ok ({ P with led := Model.Import.importWalletStore P.led w (r.addrs.map (·.2)) }, V)⟩],
    repair := fun done _ V => if done ≥ 2 then { V with keys := AMap.erase V.keys w } else V,
    post := fun _ _ _ V => if r.addrs.isEmpty then V else { V with tasks := V.tasks ++ [.imp w] } }

/-- fault-free ImportWallet in closed form -/
theorem importStart_none (n : Nat) (w : Wid) (r : KsRec) (P : PStore) (V : PVol) :
    (opImportStart n w r).run none P V =
      if (AMap.get P.ks w).isSome then ⟨false, P, V, 0, 1 + n⟩
      else ⟨true, { led := Model.Import.importWalletStore P.led w (r.addrs.map (·.2)), ks := AMap.put P.ks w r },
            (if r.addrs.isEmpty then { V with keys := AMap.put V.keys w r }
             else { V with keys := AMap.put V.keys w r, tasks := V.tasks ++ [.imp w] }), 1, 1 + n + 0 + n + 1⟩ := by
  unfold Op.run
  simp only [opImportStart, runPhases]
  by_cases h : (AMap.get P.ks w).isSome = true
  · simp [h]
  · by_cases he : r.addrs.isEmpty = true <;> simp [h, he]

-- ------------------------------------------------------------------ events and steps

/-- what never changes along a history: round 3's `Static`, the number of storage calls per stretch (any), the
    batch size of the rescan (1000 in the code) and the step size of the removal -/
structure Cfg where
  st : Static
  n : Nat
  batch : Nat
  limit : Nat

inductive EvT
  | q (e : EvQ)                        -- round 3: extend | reorgTo | handle | create | newAddr | recvTx | crash
  | importStart (w : Wid) (r : KsRec)
  | importStep (w : Wid)
  | removeMark (w : Wid)
  | removeStep (w : Wid)
  | importDrain (w : Wid) (fuel : Nat)   -- the worker runs the queued rescan to its end
  | removeDrain (w : Wid)                -- the worker runs the queued removal to its end
  deriving Inhabited

/-- the worker is done with a task: it leaves the queue -/
def dropTask (V : PVol) (t : Task) : PVol := { V with tasks := V.tasks.filter (fun t' => decide (t' ≠ t)) }

def stepT (cfg : Cfg) (crashing : Bool) (x : SysQ) : EvT → SysQ
  | .q e => stepQ cfg.st cfg.n crashing x e
  | .importStart w r =>
    let res := (opImportStart cfg.n w r).run none x.P x.V
    { x with P := res.P, V := res.V }
  | .importStep w =>
    if x.V.tasks.contains (.imp w) && !importDone x.P w then
      let res := (opImportStep cfg.batch cfg.n (envAt cfg.st x.chain) w).run none x.P x.V
      { x with P := res.P, V := if res.ok && importDone res.P w then dropTask res.V (.imp w) else res.V }
    else x
  | .removeMark w =>
    let res := (opRemoveMark cfg.n w).run none x.P x.V
    { x with P := res.P, V := res.V }
  | .removeStep w =>
    if x.V.tasks.contains (.rem w) && !removeDone x.P w then
      let res := (opRemoveStep cfg.limit cfg.n (envAt cfg.st x.chain) w (addrsOf x.V.keys w)).run none x.P x.V
      { x with P := res.P, V := if res.ok && removeDone res.P w then dropTask res.V (.rem w) else res.V }
    else x
  | .importDrain w fuel =>
    if x.V.tasks.contains (.imp w) && !importDone x.P w then
      match importLoop cfg.batch cfg.n (envAt cfg.st x.chain) w fuel x.P x.V with
      | some (P', V') => { x with P := P', V := dropTask V' (.imp w) }
      | none => x
    else x
  | .removeDrain w =>
    -- "until done": one more iteration than there are credits always suffices (`removeLoop_total`)
    if x.V.tasks.contains (.rem w) && !removeDone x.P w then
      match removeLoop cfg.limit cfg.n (envAt cfg.st x.chain) w (addrsOf x.V.keys w) (x.P.led.credits.length + 1) x.P x.V with
      | some (P', V') => { x with P := P', V := dropTask V' (.rem w) }
      | none => x
    else x

def runT (cfg : Cfg) (crashing : Bool) (x : SysQ) (evs : List EvT) : SysQ := evs.foldl (stepT cfg crashing) x

theorem runT_cons (cfg : Cfg) (cr : Bool) (x : SysQ) (ev : EvT) (evs : List EvT) :
    runT cfg cr x (ev :: evs) = runT cfg cr (stepT cfg cr x ev) evs := rfl

theorem runT_append (cfg : Cfg) (cr : Bool) (x : SysQ) (l₁ l₂ : List EvT) :
    runT cfg cr x (l₁ ++ l₂) = runT cfg cr (runT cfg cr x l₁) l₂ := by
  unfold runT; rw [List.foldl_append]

/-- a history of round-3 events is a history of this world -/
theorem runT_q (cfg : Cfg) (cr : Bool) (evs : List EvQ) : ∀ x, runT cfg cr x (evs.map EvT.q) = runQ cfg.st cfg.n cr x evs := by
  induction evs with
  | nil => intro x; rfl
  | cons e evs ih => intro x; exact ih _

-- ------------------------------------------------------------------ the skeleton

/-- round 3's skeleton, the notification queue of the run that never stops, and the task window -/
structure SkelT where
  base : Skel
  queue : List Block := []
  busy : Option Task := none

def queueStep (q : List Block) : EvQ → List Block
  | .extend b => q ++ [b]
  | .reorgTo _ bs => q ++ bs
  | .handle => q.tail
  | _ => q

def skStepT (cfg : Cfg) (k : SkelT) : EvT → SkelT
  | .q e => { k with base := skStep cfg.st k.base e, queue := queueStep k.queue e }
  | .importStart w r => { k with base := { k.base with ks := AMap.put k.base.ks w r }, busy := some (.imp w) }
  | .importStep _ => k
  | .removeMark w => { k with busy := some (.rem w) }
  | .removeStep _ => k
  | .importDrain _ _ => { k with busy := none }
  | .removeDrain w => { k with base := { k.base with ks := AMap.erase k.base.ks w }, busy := none }

def skRunT (cfg : Cfg) (k : SkelT) (evs : List EvT) : SkelT := evs.foldl (skStepT cfg) k

theorem skRunT_cons (cfg : Cfg) (k : SkelT) (ev : EvT) (evs : List EvT) :
    skRunT cfg k (ev :: evs) = skRunT cfg (skStepT cfg k ev) evs := rfl

/-- every block still to be announced to the run that never stops is on the node's chain (no stale notification) -/
def QueueOnChain (k : SkelT) : Prop := ∀ b ∈ k.queue, k.base.chain[b.height]? = some b

/-- the new node chain of a node event is not absurdly long (the rescan computes in uint64) -/
def ShortOK (cfg : Cfg) (k : Skel) : EvQ → Prop
  | .extend b => (k.chain ++ [b]).length + cfg.batch < 2 ^ 64
  | .reorgTo n bs => (k.chain.take (k.chain.length - n) ++ bs).length + cfg.batch < 2 ^ 64
  | _ => True

/-- which round-3 events are covered INSIDE a task window.
    Import window: node events (extensions, reorganisations to any branch), unconfirmed transactions, crashes ANYWHERE,
    handler steps for ANY queued notification (stale ones included), CreateWallet, NewAddress of the other wallets.
    Removal window: node events, crashes while no notification is pending, CreateWallet (another name), NewAddress of
    the other wallets, unconfirmed transactions that are not in a chain the node has had (C08's `pendOff`); no handler
    step (C08 has no follower-step theorem for a partly deleted wallet). -/
def WindowOK (k : SkelT) : EvQ → Prop
  | .create w2 =>
    match k.busy with
    | some (.rem w) => w2 ≠ w      -- the name of the wallet being removed is not given to a new wallet inside the window
    | _ => True
  | .newAddr w1 _ =>
    match k.busy with
    | none => True
    | some (.imp w) => w1 ≠ w      -- NewAddress is refused for the wallet being restored (UseWallet wants it ready)
    | some (.rem w) => w1 ≠ w      -- … and for the wallet being removed
  | .handle =>
    match k.busy with
    | some (.rem _) => False
    | _ => True
  | .crash =>
    match k.busy with
    | some (.rem _) => k.queue = []
    | _ => True
  | .recvTx tx =>
    match k.busy with
    | some (.rem _) => ∀ c ∈ k.base.hist, tx.id ∉ idsOf (occs c)   -- not a transaction of a chain the node has had
    | _ => True
  | _ => True

/-- the hypotheses on one event -/
def StepOKT (cfg : Cfg) (G : Block) (k : SkelT) : EvT → Prop
  | .q e => StepOK cfg.st G k.base e ∧ ShortOK cfg k.base e ∧ WindowOK k e
  | .importStart w r =>
    -- the worker is idle (ImportWallet answers ErrTooManyTask otherwise), the keystore is new, manages at least one
    -- address, its addresses are distinct and new to the table, and every chain the node has had is valid for the
    -- larger table too
    k.busy = none ∧ AMap.get k.base.ks w = none ∧ r.addrs ≠ [] ∧
      KeysNodup (ownOf (AMap.put k.base.ks w r)) ∧
      ∀ c ∈ k.base.hist, ChainValid (ownOf (AMap.put k.base.ks w r)) c
  | .importStep w => k.busy = some (.imp w)
  | .removeMark w =>
    -- the worker is idle, the wallet exists and manages at least one address, and it is not the last wallet
    k.busy = none ∧ (∃ r, AMap.get k.base.ks w = some r ∧ r.addrs ≠ []) ∧ ∃ w', w' ≠ w ∧ w' ∈ walletsOf k.base.ks
  | .removeStep w => k.busy = some (.rem w)
  | .importDrain w fuel => k.busy = some (.imp w) ∧ k.queue = [] ∧ k.base.chain.length + 1 ≤ fuel
  | .removeDrain w => k.busy = some (.rem w)

def RunOKT (cfg : Cfg) (G : Block) : SkelT → List EvT → Prop
  | _, [] => True
  | k, ev :: evs => StepOKT cfg G k ev ∧ RunOKT cfg G (skStepT cfg k ev) evs

end MW.Lemmas.Deepen4
