/-
  WHAT THE TABLES OF THE BOOKS CONTAIN, in terms of the chain — part 1: the folds of `applyOcc`.

  Pointwise characterisations of the spend fold (`char_spendFold`), the create fold (`char_createFold`) and
  the deposit fold (`char_depositFold_back`) on the tables `credits`, `debits`, `game`, and their
  combination for one transaction (`char_applyOcc_credits`, `char_applyOcc_debits`, `char_applyOcc_game_*`).
  Only hypothesis: the inputs of the transaction are pairwise distinct outpoints.
  Also: `SpentBy` (input k of a transaction of the chain spends an outpoint) with its list lemmas, and
  uniqueness of the coin behind an outpoint (`char_created_unique`, `char_lookup_of_mem`).
-/
import MW.Lemmas.LedgerUndo
import MW.Lemmas.LedgerChainDefs
namespace MW.Lemmas.Ledger
open MW MW.Model.Ledger MW.Spec.Chain MW.Spec.Books

-- ------------------------------------------------------------------ SpentBy

/-- input `k` of a (non-coinbase) transaction of `P` spends outpoint `op`; `dk` is the debit key of that input -/
def SpentBy (P : List Occ) (op : TxId × Nat) (dk : CredKey) : Prop :=
  ∃ oc ∈ P, oc.t.cb = false ∧ ∃ k i, oc.t.ins[k]? = some i ∧ opOf i = op ∧ dk = ⟨oc.t.id, oc.bm, k⟩

theorem spentBy_mem_spentOps {P : List Occ} {op : TxId × Nat} {dk : CredKey} (h : SpentBy P op dk) :
    op ∈ spentOps P := by
  obtain ⟨oc, hoc, hcb, k, i, hk, hop, _⟩ := h
  unfold spentOps
  rw [List.mem_flatMap]
  refine ⟨oc, hoc, ?_⟩
  rw [hcb]
  simp only [Bool.false_eq_true, if_false]
  exact List.mem_map.2 ⟨i, List.mem_of_getElem? hk, hop⟩

theorem mem_spentOps_spentBy {P : List Occ} {op : TxId × Nat} (h : op ∈ spentOps P) : ∃ dk, SpentBy P op dk := by
  unfold spentOps at h
  obtain ⟨oc, hoc, h1⟩ := List.mem_flatMap.1 h
  by_cases hcb : oc.t.cb = true
  · simp [hcb] at h1
  · have hcb' : oc.t.cb = false := by simpa using hcb
    simp only [hcb', Bool.false_eq_true, if_false] at h1
    obtain ⟨i, hi, hop⟩ := List.mem_map.1 h1
    obtain ⟨k, hk⟩ := List.getElem?_of_mem hi
    exact ⟨⟨oc.t.id, oc.bm, k⟩, oc, hoc, hcb', k, i, hk, hop, rfl⟩

theorem mem_spentOps_iff_spentBy {P : List Occ} {op : TxId × Nat} : op ∈ spentOps P ↔ ∃ dk, SpentBy P op dk :=
  ⟨mem_spentOps_spentBy, fun ⟨_, h⟩ => spentBy_mem_spentOps h⟩

theorem spentBy_snoc {P : List Occ} {oc : Occ} {op : TxId × Nat} {dk : CredKey} :
    SpentBy (P ++ [oc]) op dk ↔
      (SpentBy P op dk ∨
        (oc.t.cb = false ∧ ∃ k i, oc.t.ins[k]? = some i ∧ opOf i = op ∧ dk = ⟨oc.t.id, oc.bm, k⟩)) := by
  unfold SpentBy
  constructor
  · rintro ⟨oc', hm, h⟩
    rcases List.mem_append.1 hm with h1 | h1
    · exact Or.inl ⟨oc', h1, h⟩
    · rw [List.mem_singleton.1 h1] at h; exact Or.inr h
  · rintro (⟨oc', hm, h⟩ | h)
    · exact ⟨oc', List.mem_append_left _ hm, h⟩
    · exact ⟨oc, List.mem_append_right _ (List.mem_singleton.2 rfl), h⟩

theorem spentBy_mono {P Q : List Occ} {op : TxId × Nat} {dk : CredKey} (h : SpentBy P op dk) :
    SpentBy (P ++ Q) op dk := by
  obtain ⟨oc, hoc, h⟩ := h
  exact ⟨oc, List.mem_append_left _ hoc, h⟩

/-- the debit key names a transaction of `P` -/
theorem spentBy_tx_mem {P : List Occ} {op : TxId × Nat} {dk : CredKey} (h : SpentBy P op dk) : dk.tx ∈ idsOf P := by
  obtain ⟨oc, hoc, _, k, i, _, _, hdk⟩ := h
  rw [hdk]
  exact List.mem_map.2 ⟨oc, hoc, rfl⟩

theorem createdIn_mono {own : Own} {P Q : List Occ} {u : UCoin} (h : CreatedIn own P u) : CreatedIn own (P ++ Q) u := by
  obtain ⟨oc, hoc, h⟩ := h
  exact ⟨oc, List.mem_append_left _ hoc, h⟩

-- ------------------------------------------------------------------ the coin behind an outpoint is unique

/-- with pairwise distinct transaction ids, an outpoint determines the owned coin -/
theorem char_created_unique {own : Own} {P : List Occ} (hn : (idsOf P).Nodup) {u u' : UCoin}
    (h : CreatedIn own P u) (h' : CreatedIn own P u') (ht : u.tx = u'.tx) (hi : u.idx = u'.idx) : u = u' := by
  obtain ⟨oc, hoc, hid, hget, hown, hblk, hcb⟩ := h
  obtain ⟨oc', hoc', hid', hget', hown', hblk', hcb'⟩ := h'
  have he : oc = oc' := occ_eq_of_id hn hoc hoc' (by rw [hid, hid', ht])
  subst he
  obtain ⟨w, tx, idx, blk, cb, out, ch⟩ := u
  obtain ⟨w', tx', idx', blk', cb', out', ch'⟩ := u'
  simp only at ht hi hid hget hown hblk hcb hid' hget' hown' hblk' hcb'
  subst ht hi
  rw [hget] at hget'
  have ho : out = out' := by injection hget'
  subst ho
  rw [hown] at hown'
  have hw : (w, ch) = (w', ch') := by injection hown'
  injection hw with hw1 hw2
  subst hw1 hw2 hblk hcb hblk' hcb'
  rfl

theorem char_keysOK {own : Own} {P : List Occ} {B : Book} (hG : Glob own P B) :
    ∀ u ∈ B.L, ∀ u' ∈ B.L, u.tx = u'.tx → u.idx = u'.idx → u = u' := by
  intro u hu u' hu' ht hi
  exact char_created_unique hG.idsNodup ((hG.mem u).1 hu).1 ((hG.mem u').1 hu').1 ht hi

/-- looking up the outpoint of a ledger entry finds that entry -/
theorem char_lookup_of_mem {own : Own} {P : List Occ} {B : Book} (hG : Glob own P B) {u : UCoin} (hu : u ∈ B.L) :
    lookupU B.L u.tx u.idx = some u := by
  cases h : lookupU B.L u.tx u.idx with
  | none => exact absurd ⟨rfl, rfl⟩ (lookupU_none h u hu)
  | some u' =>
    obtain ⟨hm, ht, hi⟩ := lookupU_some h
    rw [char_keysOK hG u' hm u hu ht hi]

-- ------------------------------------------------------------------ the spend fold on credits / debits / game

/-- the credit of `u` once input `dk` has spent it -/
def spentCredit (p : Params) (u : UCoin) (dk : CredKey) : Credit :=
  { creditOf p u with spent := true, spentBy := some dk }

theorem spentCredit_eq (p : Params) (u : UCoin) (dk : CredKey) :
    spentCredit p u dk = { creditOf p u with spent := true, spentBy := some dk } := rfl

theorem char_spendB_hit {p : Params} {t : Tx} {bm : BlockMeta} {B : Book} {k : Nat} {i : Inp} {u : UCoin}
    (hu : lookupU B.L i.tx i.idx = some u) :
    (spendB p t bm B k i).credits =
        upd B.credits u.credKey (some (spentCredit p u ⟨t.id, bm, k⟩)) ∧
    (spendB p t bm B k i).debits = upd B.debits ⟨t.id, bm, k⟩ (some (u.out.amt, u.credKey)) ∧
    (spendB p t bm B k i).game =
        (if isDeposit u.out.cls then upd (upd B.game (u.gameKey false) none) (u.gameKey true) (some ())
         else B.game) := by
  unfold spendB; rw [hu]; exact ⟨rfl, rfl, rfl⟩

theorem char_gameKey_flag_ne (u : UCoin) : u.gameKey true ≠ u.gameKey false := by
  intro h
  unfold UCoin.gameKey at h
  injection h with _ _ h3 _ _ _
  cases h3

/-- THE SPEND FOLD, pointwise. A "hit" is an input `is[m]` whose outpoint is in the ledger list (`u`).
    Every hit marks its credit spent by debit key (t, bm, k+m), writes that debit, moves the deposit record;
    keys that belong to no hit keep their values. Needs: the inputs are pairwise distinct outpoints. -/
theorem char_spendFold (p : Params) (t : Tx) (bm : BlockMeta) (is : List Inp) :
    ∀ (k : Nat) (B : Book), (is.map opOf).Nodup →
    (∀ (m : Nat) (i : Inp) (u : UCoin), is[m]? = some i → lookupU B.L i.tx i.idx = some u →
      (foldIdx (spendB p t bm) is k B).credits u.credKey =
          some (spentCredit p u ⟨t.id, bm, k + m⟩) ∧
      (foldIdx (spendB p t bm) is k B).debits ⟨t.id, bm, k + m⟩ = some (u.out.amt, u.credKey) ∧
      (isDeposit u.out.cls = true →
        (foldIdx (spendB p t bm) is k B).game (u.gameKey true) = some () ∧
        (foldIdx (spendB p t bm) is k B).game (u.gameKey false) = none)) ∧
    (∀ ck, (∀ (m : Nat) (i : Inp) (u : UCoin), is[m]? = some i → lookupU B.L i.tx i.idx = some u → u.credKey ≠ ck) →
      (foldIdx (spendB p t bm) is k B).credits ck = B.credits ck) ∧
    (∀ dk, (∀ (m : Nat) (i : Inp) (u : UCoin), is[m]? = some i → lookupU B.L i.tx i.idx = some u → (⟨t.id, bm, k + m⟩ : CredKey) ≠ dk) →
      (foldIdx (spendB p t bm) is k B).debits dk = B.debits dk) ∧
    (∀ gk, (∀ (m : Nat) (i : Inp) (u : UCoin), is[m]? = some i → lookupU B.L i.tx i.idx = some u → isDeposit u.out.cls = true →
        u.gameKey true ≠ gk ∧ u.gameKey false ≠ gk) →
      (foldIdx (spendB p t bm) is k B).game gk = B.game gk) := by
  induction is with
  | nil =>
    intro k B _
    refine ⟨?_, ?_, ?_, ?_⟩
    · intro m i u h; simp at h
    · intro ck _; rfl
    · intro dk _; rfl
    · intro gk _; rfl
  | cons i0 is ih =>
    intro k B hnd
    rw [List.map_cons, List.nodup_cons] at hnd
    obtain ⟨hnot, hnd'⟩ := hnd
    -- the lookups of the later inputs do not see the removal of the first outpoint
    have hlk : ∀ i ∈ is, lookupU (spendB p t bm B k i0).L i.tx i.idx = lookupU B.L i.tx i.idx := by
      intro i hi
      rw [spendB_L, lookupU_filter]
      have : ¬ (i0.tx = i.tx ∧ i0.idx = i.idx) := by
        rintro ⟨h1, h2⟩
        apply hnot
        have : opOf i0 = opOf i := by unfold opOf; rw [h1, h2]
        rw [this]; exact List.mem_map.2 ⟨i, hi, rfl⟩
      simp only [this, if_false]
    obtain ⟨ihA, ihC, ihD, ihG⟩ := ih (k + 1) (spendB p t bm B k i0) hnd'
    simp only [foldIdx_cons]
    cases h0 : lookupU B.L i0.tx i0.idx with
    | none =>
      have hB1 : spendB p t bm B k i0 = B := spendB_miss h0
      rw [hB1] at ihA ihC ihD ihG ⊢
      refine ⟨?_, ?_, ?_, ?_⟩
      · intro m i u hm hu
        cases m with
        | zero =>
          simp only [List.getElem?_cons_zero, Option.some.injEq] at hm
          subst hm; rw [h0] at hu; cases hu
        | succ m =>
          simp only [List.getElem?_cons_succ] at hm
          have := ihA m i u hm hu
          rw [show k + 1 + m = k + (m + 1) by omega] at this
          exact this
      · intro ck h
        exact ihC ck (fun m i u hm hu => h (m + 1) i u (by simpa using hm) hu)
      · intro dk h
        apply ihD dk
        intro m i u hm hu
        have := h (m + 1) i u (by simpa using hm) hu
        rw [show k + (m + 1) = k + 1 + m by omega] at this
        exact this
      · intro gk h
        exact ihG gk (fun m i u hm hu hd => h (m + 1) i u (by simpa using hm) hu hd)
    | some u0 =>
      obtain ⟨hm0, htx0, hidx0⟩ := lookupU_some h0
      obtain ⟨hc1, hd1, hg1⟩ := char_spendB_hit (p := p) (t := t) (bm := bm) (k := k) h0
      -- later hits sit at other outpoints than `u0`
      have hother : ∀ (m : Nat) (i : Inp) (u : UCoin), is[m]? = some i → lookupU (spendB p t bm B k i0).L i.tx i.idx = some u →
          ¬ (u.tx = u0.tx ∧ u.idx = u0.idx) := by
        intro m i u _ hu
        have hmem := (lookupU_some hu).1
        rw [spendB_L] at hmem
        have hf := (List.mem_filter.1 hmem).2
        rw [htx0, hidx0]
        intro h
        have h' := (at_iff i0.tx i0.idx u).2 h
        simp [h'] at hf
      have hback : ∀ (m : Nat) (i : Inp) (u : UCoin), is[m]? = some i → lookupU (spendB p t bm B k i0).L i.tx i.idx = some u →
          lookupU B.L i.tx i.idx = some u := by
        intro m i u hm hu
        rw [← hlk i (List.mem_of_getElem? hm)]; exact hu
      refine ⟨?_, ?_, ?_, ?_⟩
      · intro m i u hm hu
        cases m with
        | zero =>
          simp only [List.getElem?_cons_zero, Option.some.injEq] at hm
          subst hm
          rw [h0] at hu
          have hu' : u0 = u := by injection hu
          subst hu'
          refine ⟨?_, ?_, ?_⟩
          · rw [ihC u0.credKey (fun m i u hm hu => (credKey_ne_of_key_ne (hother m i u hm hu)).symm), hc1]
            simp [upd_apply]
          · rw [ihD ⟨t.id, bm, k + 0⟩ (fun m i u _ _ => by
              intro h; injection h with _ _ h3; omega), hd1]
            simp [upd_apply]
          · intro hdep
            have hne : ∀ gk, (gk = u0.gameKey true ∨ gk = u0.gameKey false) →
                ∀ (m : Nat) (i : Inp) (u : UCoin), is[m]? = some i → lookupU (spendB p t bm B k i0).L i.tx i.idx = some u →
                  isDeposit u.out.cls = true → u.gameKey true ≠ gk ∧ u.gameKey false ≠ gk := by
              intro gk hgk m i u hm hu _
              have hn := hother m i u hm hu
              rcases hgk with rfl | rfl
              · exact ⟨(gameKey_ne_of_key_ne true true hn).symm, (gameKey_ne_of_key_ne true false hn).symm⟩
              · exact ⟨(gameKey_ne_of_key_ne false true hn).symm, (gameKey_ne_of_key_ne false false hn).symm⟩
            rw [ihG _ (hne _ (Or.inl rfl)), ihG _ (hne _ (Or.inr rfl)), hg1]
            simp [hdep, upd_apply, char_gameKey_flag_ne u0]
        | succ m =>
          simp only [List.getElem?_cons_succ] at hm
          have hu1 : lookupU (spendB p t bm B k i0).L i.tx i.idx = some u := by
            rw [hlk i (List.mem_of_getElem? hm)]; exact hu
          have := ihA m i u hm hu1
          rw [show k + 1 + m = k + (m + 1) by omega] at this
          exact this
      · intro ck h
        rw [ihC ck (fun m i u hm hu => h (m + 1) i u (by simpa using hm) (hback m i u hm hu)), hc1]
        have : ¬ (u0.credKey = ck) := h 0 i0 u0 rfl h0
        simp only [upd_apply, this, if_false]
      · intro dk h
        have h1 : (foldIdx (spendB p t bm) is (k + 1) (spendB p t bm B k i0)).debits dk =
            (spendB p t bm B k i0).debits dk := by
          apply ihD dk
          intro m i u hm hu
          have := h (m + 1) i u (by simpa using hm) (hback m i u hm hu)
          rw [show k + (m + 1) = k + 1 + m by omega] at this
          exact this
        rw [h1, hd1]
        have : ¬ ((⟨t.id, bm, k⟩ : CredKey) = dk) := h 0 i0 u0 rfl h0
        simp only [upd_apply, this, if_false]
      · intro gk h
        rw [ihG gk (fun m i u hm hu hd => h (m + 1) i u (by simpa using hm) (hback m i u hm hu) hd), hg1]
        by_cases hdep : isDeposit u0.out.cls = true
        · obtain ⟨g1, g2⟩ := h 0 i0 u0 rfl h0 hdep
          simp only [hdep, if_true, upd_apply, g1, g2, if_false]
        · simp only [hdep]
          rfl

-- ------------------------------------------------------------------ the create fold and the deposit fold

theorem char_createB_same (p : Params) (own : Own) (t : Tx) (bm : BlockMeta) (B : Book) (j : Nat) (o : Out) :
    (createB p own t bm B j o).debits = B.debits ∧ (createB p own t bm B j o).game = B.game := by
  unfold createB
  cases h : ownerOf own o <;> exact ⟨rfl, rfl⟩

/-- THE CREATE FOLD, pointwise: an unspent credit for every owned output, other keys keep their values;
    debits and deposit records untouched -/
theorem char_createFold (p : Params) (own : Own) (t : Tx) (bm : BlockMeta) (os : List Out) :
    ∀ (j : Nat) (B : Book),
    (∀ (m : Nat) (o : Out) (w : Wid) (ch : Bool), os[m]? = some o → ownerOf own o = some (w, ch) →
      (foldIdx (createB p own t bm) os j B).credits ⟨t.id, bm, j + m⟩ =
        some (creditOf p ⟨w, t.id, j + m, bm, t.cb, o, ch⟩)) ∧
    (∀ ck, (∀ (m : Nat) (o : Out), os[m]? = some o → (ownerOf own o).isSome = true →
        (⟨t.id, bm, j + m⟩ : CredKey) ≠ ck) →
      (foldIdx (createB p own t bm) os j B).credits ck = B.credits ck) ∧
    (foldIdx (createB p own t bm) os j B).debits = B.debits ∧
    (foldIdx (createB p own t bm) os j B).game = B.game := by
  induction os with
  | nil =>
    intro j B
    refine ⟨?_, ?_, rfl, rfl⟩
    · intro m o w ch h; simp at h
    · intro ck _; rfl
  | cons o0 os ih =>
    intro j B
    obtain ⟨ihA, ihC, ihD, ihG⟩ := ih (j + 1) (createB p own t bm B j o0)
    simp only [foldIdx_cons]
    obtain ⟨hd0, hg0⟩ := char_createB_same p own t bm B j o0
    refine ⟨?_, ?_, ihD.trans hd0, ihG.trans hg0⟩
    · intro m o w ch hm ho
      cases m with
      | zero =>
        simp only [List.getElem?_cons_zero, Option.some.injEq] at hm
        subst hm
        rw [ihC ⟨t.id, bm, j + 0⟩ (fun m o _ _ => by intro h; injection h with _ _ h3; omega),
          (createB_owned (p := p) (t := t) (bm := bm) (B := B) (j := j) ho).2]
        simp [upd_apply]
      | succ m =>
        simp only [List.getElem?_cons_succ] at hm
        have := ihA m o w ch hm ho
        rw [show j + 1 + m = j + (m + 1) by omega] at this
        exact this
    · intro ck h
      have h1 : (foldIdx (createB p own t bm) os (j + 1) (createB p own t bm B j o0)).credits ck =
          (createB p own t bm B j o0).credits ck := by
        apply ihC ck
        intro m o hm ho
        have := h (m + 1) o (by simpa using hm) ho
        rw [show j + (m + 1) = j + 1 + m by omega] at this
        exact this
      rw [h1]
      cases ho : ownerOf own o0 with
      | none => rw [createB_none ho]
      | some wc =>
        obtain ⟨w, ch⟩ := wc
        rw [(createB_owned (p := p) (t := t) (bm := bm) (B := B) (j := j) ho).2]
        have : ¬ ((⟨t.id, bm, j⟩ : CredKey) = ck) := h 0 o0 rfl (by rw [ho]; rfl)
        simp only [upd_apply, this, if_false]

/-- a deposit record present after the deposit fold was there before or is the (un-withdrawn) record of an
    owned staking / binding output -/
theorem char_depositFold_back (own : Own) (t : Tx) (bm : BlockMeta) (os : List Out) :
    ∀ (j : Nat) (B : Book) (gk : GameKey), (foldIdx (depositB own t bm) os j B).game gk = some () →
      B.game gk = some () ∨
      ∃ (m : Nat) (o : Out) (w : Wid) (ch : Bool), os[m]? = some o ∧ ownerOf own o = some (w, ch) ∧
        isDeposit o.cls = true ∧ gk = ⟨w, o.cls.isBinding, false, t.id, bm.height, j + m⟩ := by
  induction os with
  | nil => intro j B gk h; exact Or.inl h
  | cons o0 os ih =>
    intro j B gk h
    rw [foldIdx_cons] at h
    rcases ih (j + 1) _ gk h with h1 | ⟨m, o, w, ch, hm, ho, hd, hk⟩
    · unfold depositB at h1
      cases ho : ownerOf own o0 with
      | none => rw [ho] at h1; exact Or.inl h1
      | some wc =>
        obtain ⟨w, ch⟩ := wc
        rw [ho] at h1
        by_cases hd : isDeposit o0.cls = true
        · simp only [hd, if_true, upd_apply] at h1
          by_cases hk : (⟨w, o0.cls.isBinding, false, t.id, bm.height, j⟩ : GameKey) = gk
          · exact Or.inr ⟨0, o0, w, ch, rfl, ho, hd, hk.symm⟩
          · simp only [hk, if_false] at h1; exact Or.inl h1
        · simp only [hd] at h1; exact Or.inl h1
    · exact Or.inr ⟨m + 1, o, w, ch, by simpa using hm, ho, hd, by rw [hk, show j + 1 + m = j + (m + 1) by omega]⟩

-- ------------------------------------------------------------------ one transaction

theorem char_recStep_debits (own : Own) (B : Book) (oc : Occ) : (recStep own B oc).debits = B.debits := by
  unfold recStep; by_cases h : touches own B oc.t = true <;> simp [h, recordB]

/-- the spend step of `applyOcc` (after the record step), in terms of the books before the transaction -/
theorem char_spendStep (p : Params) (own : Own) (B : Book) (oc : Occ)
    (hnd : oc.t.cb = false → (oc.t.ins.map opOf).Nodup) :
    (∀ (m : Nat) (i : Inp) (u : UCoin), oc.t.cb = false → oc.t.ins[m]? = some i →
      lookupU B.L i.tx i.idx = some u →
      (spendStep p (recStep own B oc) oc).credits u.credKey = some (spentCredit p u ⟨oc.t.id, oc.bm, m⟩) ∧
      (spendStep p (recStep own B oc) oc).debits ⟨oc.t.id, oc.bm, m⟩ = some (u.out.amt, u.credKey) ∧
      (isDeposit u.out.cls = true →
        (spendStep p (recStep own B oc) oc).game (u.gameKey true) = some () ∧
        (spendStep p (recStep own B oc) oc).game (u.gameKey false) = none)) ∧
    (∀ ck, (∀ (m : Nat) (i : Inp) (u : UCoin), oc.t.cb = false → oc.t.ins[m]? = some i →
        lookupU B.L i.tx i.idx = some u → u.credKey ≠ ck) →
      (spendStep p (recStep own B oc) oc).credits ck = B.credits ck) ∧
    (∀ dk, (∀ (m : Nat) (i : Inp) (u : UCoin), oc.t.cb = false → oc.t.ins[m]? = some i →
        lookupU B.L i.tx i.idx = some u → (⟨oc.t.id, oc.bm, m⟩ : CredKey) ≠ dk) →
      (spendStep p (recStep own B oc) oc).debits dk = B.debits dk) ∧
    (∀ gk, (∀ (m : Nat) (i : Inp) (u : UCoin), oc.t.cb = false → oc.t.ins[m]? = some i →
        lookupU B.L i.tx i.idx = some u → isDeposit u.out.cls = true →
        u.gameKey true ≠ gk ∧ u.gameKey false ≠ gk) →
      (spendStep p (recStep own B oc) oc).game gk = B.game gk) := by
  unfold spendStep
  by_cases hcb : oc.t.cb = true
  · simp only [hcb, if_true]
    refine ⟨?_, ?_, ?_, ?_⟩
    · intro m i u h; cases h
    · intro ck _; rw [recStep_credits]
    · intro dk _; rw [char_recStep_debits]
    · intro gk _; rw [recStep_game]
  · have hcb' : oc.t.cb = false := by simpa using hcb
    rw [if_neg hcb]
    obtain ⟨hA, hC, hD, hG⟩ := char_spendFold p oc.t oc.bm oc.t.ins 0 (recStep own B oc) (hnd hcb')
    simp only [recStep_L, recStep_credits, char_recStep_debits, recStep_game, Nat.zero_add] at hA hC hD hG
    exact ⟨fun m i u _ hm hu => hA m i u hm hu, fun ck h => hC ck (fun m i u hm hu => h m i u hcb' hm hu),
      fun dk h => hD dk (fun m i u hm hu => h m i u hcb' hm hu),
      fun gk h => hG gk (fun m i u hm hu hd => h m i u hcb' hm hu hd)⟩

/-- CREDITS after one transaction: new unspent credits for its owned outputs, the hits marked spent,
    every other key as before -/
theorem char_applyOcc_credits (p : Params) (own : Own) (B : Book) (oc : Occ)
    (hnd : oc.t.cb = false → (oc.t.ins.map opOf).Nodup) :
    (∀ (m : Nat) (o : Out) (w : Wid) (ch : Bool), oc.t.outs[m]? = some o → ownerOf own o = some (w, ch) →
      (applyOcc p own B oc).credits ⟨oc.t.id, oc.bm, m⟩ =
        some (creditOf p ⟨w, oc.t.id, m, oc.bm, oc.t.cb, o, ch⟩)) ∧
    (∀ (m : Nat) (i : Inp) (u : UCoin), oc.t.cb = false → oc.t.ins[m]? = some i →
      lookupU B.L i.tx i.idx = some u → u.tx ≠ oc.t.id →
      (applyOcc p own B oc).credits u.credKey = some (spentCredit p u ⟨oc.t.id, oc.bm, m⟩)) ∧
    (∀ ck, (∀ (m : Nat) (i : Inp) (u : UCoin), oc.t.cb = false → oc.t.ins[m]? = some i →
        lookupU B.L i.tx i.idx = some u → u.credKey ≠ ck) →
      (∀ (m : Nat) (o : Out), oc.t.outs[m]? = some o → (ownerOf own o).isSome = true →
        (⟨oc.t.id, oc.bm, m⟩ : CredKey) ≠ ck) →
      (applyOcc p own B oc).credits ck = B.credits ck) := by
  obtain ⟨sA, sC, _, _⟩ := char_spendStep p own B oc hnd
  obtain ⟨cA, cC, _, _⟩ := char_createFold p own oc.t oc.bm oc.t.outs 0 (spendStep p (recStep own B oc) oc)
  simp only [Nat.zero_add] at cA cC
  rw [applyOcc_eq, (depositFold_L ..).2.1]
  refine ⟨cA, ?_, ?_⟩
  · intro m i u hcb hm hu hne
    rw [cC u.credKey (fun m' o _ _ => by
      intro h; exact hne (congrArg CredKey.tx h).symm)]
    exact (sA m i u hcb hm hu).1
  · intro ck h1 h2
    rw [cC ck h2]
    exact sC ck h1

/-- DEBITS after one transaction: one debit per hit, every other key as before -/
theorem char_applyOcc_debits (p : Params) (own : Own) (B : Book) (oc : Occ)
    (hnd : oc.t.cb = false → (oc.t.ins.map opOf).Nodup) :
    (∀ (m : Nat) (i : Inp) (u : UCoin), oc.t.cb = false → oc.t.ins[m]? = some i →
      lookupU B.L i.tx i.idx = some u →
      (applyOcc p own B oc).debits ⟨oc.t.id, oc.bm, m⟩ = some (u.out.amt, u.credKey)) ∧
    (∀ dk, (∀ (m : Nat) (i : Inp) (u : UCoin), oc.t.cb = false → oc.t.ins[m]? = some i →
        lookupU B.L i.tx i.idx = some u → (⟨oc.t.id, oc.bm, m⟩ : CredKey) ≠ dk) →
      (applyOcc p own B oc).debits dk = B.debits dk) := by
  obtain ⟨sA, _, sD, _⟩ := char_spendStep p own B oc hnd
  obtain ⟨_, _, cD, _⟩ := char_createFold p own oc.t oc.bm oc.t.outs 0 (spendStep p (recStep own B oc) oc)
  rw [applyOcc_eq, (depositFold_L ..).2.2.1, cD]
  exact ⟨fun m i u hcb hm hu => (sA m i u hcb hm hu).2.1, sD⟩

/-- the deposit-record table after one transaction is the deposit fold over the table after the spend step -/
theorem char_applyOcc_game_eq (p : Params) (own : Own) (B : Book) (oc : Occ) :
    ∃ B3 : Book, B3.game = (spendStep p (recStep own B oc) oc).game ∧
      applyOcc p own B oc = foldIdx (depositB own oc.t oc.bm) oc.t.outs 0 B3 :=
  ⟨_, (char_createFold p own oc.t oc.bm oc.t.outs 0 _).2.2.2, applyOcc_eq p own B oc⟩

/-- DEPOSIT RECORDS after one transaction, backwards: a record is new (un-withdrawn, for an owned deposit
    output), or the withdrawn record of a hit, or an old record that is no record of a hit -/
theorem char_applyOcc_game_back (p : Params) (own : Own) (B : Book) (oc : Occ)
    (hnd : oc.t.cb = false → (oc.t.ins.map opOf).Nodup) (gk : GameKey)
    (h : (applyOcc p own B oc).game gk = some ()) :
    (∃ (m : Nat) (o : Out) (w : Wid) (ch : Bool), oc.t.outs[m]? = some o ∧ ownerOf own o = some (w, ch) ∧
        isDeposit o.cls = true ∧ gk = ⟨w, o.cls.isBinding, false, oc.t.id, oc.bm.height, m⟩) ∨
    (∃ (m : Nat) (i : Inp) (u : UCoin), oc.t.cb = false ∧ oc.t.ins[m]? = some i ∧
        lookupU B.L i.tx i.idx = some u ∧ isDeposit u.out.cls = true ∧ gk = u.gameKey true) ∨
    (B.game gk = some () ∧
      ∀ (m : Nat) (i : Inp) (u : UCoin), oc.t.cb = false → oc.t.ins[m]? = some i →
        lookupU B.L i.tx i.idx = some u → isDeposit u.out.cls = true →
        u.gameKey true ≠ gk ∧ u.gameKey false ≠ gk) := by
  obtain ⟨B3, hB3, hEq⟩ := char_applyOcc_game_eq p own B oc
  obtain ⟨sA, _, _, sG⟩ := char_spendStep p own B oc hnd
  rw [hEq] at h
  rcases char_depositFold_back own oc.t oc.bm oc.t.outs 0 B3 gk h with h1 | ⟨m, o, w, ch, hm, ho, hd, hk⟩
  · right
    rw [hB3] at h1
    by_cases hex : ∃ (m : Nat) (i : Inp) (u : UCoin), oc.t.cb = false ∧ oc.t.ins[m]? = some i ∧
        lookupU B.L i.tx i.idx = some u ∧ isDeposit u.out.cls = true ∧ (gk = u.gameKey true ∨ gk = u.gameKey false)
    · obtain ⟨m, i, u, hcb, hm, hu, hd, hk | hk⟩ := hex
      · exact Or.inl ⟨m, i, u, hcb, hm, hu, hd, hk⟩
      · have := ((sA m i u hcb hm hu).2.2 hd).2
        rw [← hk, h1] at this; cases this
    · right
      have hno : ∀ (m : Nat) (i : Inp) (u : UCoin), oc.t.cb = false → oc.t.ins[m]? = some i →
          lookupU B.L i.tx i.idx = some u → isDeposit u.out.cls = true →
          u.gameKey true ≠ gk ∧ u.gameKey false ≠ gk := by
        intro m i u hcb hm hu hd
        exact ⟨fun e => hex ⟨m, i, u, hcb, hm, hu, hd, Or.inl e.symm⟩,
          fun e => hex ⟨m, i, u, hcb, hm, hu, hd, Or.inr e.symm⟩⟩
      refine ⟨?_, hno⟩
      rw [← sG gk hno]; exact h1
  · left
    exact ⟨m, o, w, ch, hm, ho, hd, by rw [hk, Nat.zero_add]⟩

/-- DEPOSIT RECORDS after one transaction, forwards -/
theorem char_applyOcc_game_new (p : Params) (own : Own) (B : Book) (oc : Occ)
    {m : Nat} {o : Out} {w : Wid} {ch : Bool} (hm : oc.t.outs[m]? = some o) (ho : ownerOf own o = some (w, ch))
    (hd : isDeposit o.cls = true) :
    (applyOcc p own B oc).game ⟨w, o.cls.isBinding, false, oc.t.id, oc.bm.height, m⟩ = some () := by
  rw [applyOcc_eq]
  have := depositFold_game own oc.t oc.bm oc.t.outs 0
    (foldIdx (createB p own oc.t oc.bm) oc.t.outs 0 (spendStep p (recStep own B oc) oc)) m o w ch hm ho hd
  rw [Nat.zero_add] at this
  exact this

theorem char_applyOcc_game_hit (p : Params) (own : Own) (B : Book) (oc : Occ)
    (hnd : oc.t.cb = false → (oc.t.ins.map opOf).Nodup)
    {m : Nat} {i : Inp} {u : UCoin} (hcb : oc.t.cb = false) (hm : oc.t.ins[m]? = some i)
    (hu : lookupU B.L i.tx i.idx = some u) (hd : isDeposit u.out.cls = true) :
    (applyOcc p own B oc).game (u.gameKey true) = some () := by
  obtain ⟨B3, hB3, hEq⟩ := char_applyOcc_game_eq p own B oc
  obtain ⟨sA, _, _, _⟩ := char_spendStep p own B oc hnd
  rw [hEq]
  apply depositFold_game_mono
  rw [hB3]
  exact ((sA m i u hcb hm hu).2.2 hd).1

theorem char_applyOcc_game_keep (p : Params) (own : Own) (B : Book) (oc : Occ)
    (hnd : oc.t.cb = false → (oc.t.ins.map opOf).Nodup) {gk : GameKey} (h : B.game gk = some ())
    (hno : ∀ (m : Nat) (i : Inp) (u : UCoin), oc.t.cb = false → oc.t.ins[m]? = some i →
        lookupU B.L i.tx i.idx = some u → isDeposit u.out.cls = true →
        u.gameKey true ≠ gk ∧ u.gameKey false ≠ gk) :
    (applyOcc p own B oc).game gk = some () := by
  obtain ⟨B3, hB3, hEq⟩ := char_applyOcc_game_eq p own B oc
  obtain ⟨_, _, _, sG⟩ := char_spendStep p own B oc hnd
  rw [hEq]
  apply depositFold_game_mono
  rw [hB3, sG gk hno]
  exact h

end MW.Lemmas.Ledger
