/-
  Invariant "every visible term may be public" (database values, exported keystores, returned
  errors) and its preservation by every operation of MW.Model.Secrets.
-/
import MW.Model.Secrets
import MW.Lemmas.SecretsDY
namespace MW.Lemmas.SecretsInv
open MW MW.Model.Secrets

def DbOk (db : DB) : Prop := ∀ e ∈ db, pubOk e.2 = true
def ExOk (ex : AMap.T String Export) : Prop := ∀ e ∈ ex, ∀ t ∈ e.2.terms, pubOk t = true
def ErrOk (es : List Term) : Prop := ∀ t ∈ es, pubOk t = true

/-- every term in the database, in an exported keystore and in a returned error may be public -/
def VisOk (st : St) : Prop := DbOk st.db ∧ ExOk st.exports ∧ ErrOk st.errs

theorem visOk_iff (st : St) : VisOk st ↔ ∀ t ∈ visible st, pubOk t = true := by
  unfold VisOk DbOk ExOk ErrOk visible
  constructor
  · rintro ⟨h1, h2, h3⟩ t ht
    simp only [List.mem_append, List.mem_map, List.mem_flatMap] at ht
    rcases ht with (⟨e, he, rfl⟩ | ⟨e, he, hte⟩) | ht
    · exact h1 e he
    · exact h2 e he t hte
    · exact h3 t ht
  · intro h
    refine ⟨?_, ?_, ?_⟩
    · intro e he
      apply h
      simp only [List.mem_append, List.mem_map, List.mem_flatMap]
      exact Or.inl (Or.inl ⟨e, he, rfl⟩)
    · intro e he t ht
      apply h
      simp only [List.mem_append, List.mem_map, List.mem_flatMap]
      exact Or.inl (Or.inr ⟨e, he, ht⟩)
    · intro t ht
      apply h
      simp only [List.mem_append, List.mem_map, List.mem_flatMap]
      exact Or.inr ht

-- ------------------------------------------------------------------ association maps

theorem mem_erase {K V : Type} [DecidableEq K] {m : AMap.T K V} {k : K} {e : K × V}
    (h : e ∈ AMap.erase m k) : e ∈ m := by
  unfold AMap.erase at h
  exact (List.mem_filter.mp h).1

theorem mem_put {K V : Type} [DecidableEq K] {m : AMap.T K V} {k : K} {v : V} {e : K × V}
    (h : e ∈ AMap.put m k v) : e = (k, v) ∨ e ∈ m := by
  unfold AMap.put at h
  rcases List.mem_cons.mp h with h | h
  · exact Or.inl h
  · exact Or.inr (mem_erase h)

theorem get_mem {K V : Type} [DecidableEq K] {m : AMap.T K V} {k : K} {v : V}
    (h : AMap.get m k = some v) : (k, v) ∈ m := by
  unfold AMap.get at h
  cases hf : m.find? (fun a => decide (a.1 = k)) with
  | none => simp [hf] at h
  | some e =>
    simp [hf] at h
    have hm := List.mem_of_find?_eq_some hf
    have hk := List.find?_some hf
    simp at hk
    rcases e with ⟨k', v'⟩
    simp at hk h
    subst hk; subst h
    exact hm

theorem dbOk_put {db : DB} {k : Key} {v : Term} (h : DbOk db) (hv : pubOk v = true) : DbOk (AMap.put db k v) := by
  intro e he
  rcases mem_put he with rfl | he
  · exact hv
  · exact h e he

theorem dbOk_putAll {es : List (Key × Term)} : ∀ {db : DB}, DbOk db → (∀ e ∈ es, pubOk e.2 = true) → DbOk (putAll db es) := by
  induction es with
  | nil => intro db h _; exact h
  | cons x xs ih =>
    intro db h hes
    unfold putAll
    simp only [List.foldl_cons]
    apply ih (dbOk_put h (hes x (List.mem_cons_self)))
    intro e he
    exact hes e (List.mem_cons_of_mem _ he)

theorem dbGet_ok {db : DB} (h : DbOk db) (w : String) (k : KeyName) : pubOk (dbGet db w k) = true := by
  unfold dbGet
  cases hg : AMap.get db (w, k) with
  | none => rfl
  | some v => exact h _ (get_mem hg)

theorem dbOk_eraseWallet {db : DB} (h : DbOk db) (w : String) : DbOk (eraseWallet db w) := by
  intro e he
  unfold eraseWallet at he
  exact h e (List.mem_filter.mp he).1

-- ------------------------------------------------------------------ term shapes

theorem masterKey_not_pub (n : Nat) (p : Pass) : pubOk (masterKey n p) = false := by
  simp [masterKey, passT, pubOk]

theorem paramsT_pub (n : Nat) (p : Pass) : pubOk (paramsT n p) = true := by
  simp [paramsT, pubOk]

/-- a key obtained by DeriveKey has the form kdf salt (secret passphrase): it may not be public -/
theorem deriveKey_not_pub {params : Term} {p : Pass} {k : Term} (h : deriveKey params p = some k) :
    pubOk k = false := by
  unfold deriveKey at h
  split at h
  · simp at h
  · split at h
    · dsimp only at h
      split at h
      · simp at h; subst h; simp [passT, pubOk]
      · simp at h
    · simp at h

theorem scopeEntries_ok (w e : String) (p : Pass) (nExt nInt : Nat) (kPub kPriv : Term) (hk : pubOk kPriv = false) :
    ∀ x ∈ scopeEntries w e p nExt nInt kPub kPriv, pubOk x.2 = true := by
  intro x hx
  unfold scopeEntries at hx
  simp only [List.mem_append, List.mem_cons, List.mem_map, List.mem_range, List.not_mem_nil, or_false] at hx
  rcases hx with ((h | h | h | h | h | h | h | h) | ⟨i, _, h⟩) | ⟨i, _, h⟩ <;> subst h <;> simp [pubOk, hk]

theorem acctEntries_ok (w e : String) (p : Pass) (nExt nInt : Nat) (privParams mkPriv mkPubParams mkPub : Term)
    (kPub kPriv kEnt : Nat) (h1 : pubOk privParams = true) (h2 : pubOk mkPriv = false)
    (h3 : pubOk mkPubParams = true) (h4 : pubOk mkPub = false) :
    ∀ x ∈ acctEntries w e p nExt nInt privParams mkPriv mkPubParams mkPub kPub kPriv kEnt, pubOk x.2 = true := by
  intro x hx
  unfold acctEntries at hx
  rcases List.mem_append.mp hx with hx | hx
  · exact scopeEntries_ok w e p nExt nInt _ _ (by simp [pubOk]) x hx
  · simp only [List.mem_cons, List.not_mem_nil, or_false] at hx
    rcases hx with h | h | h | h | h | h | h <;> subst h <;> simp [pubOk, h1, h2, h3, h4]

-- ------------------------------------------------------------------ operations

theorem fail_ok {st : St} (h : VisOk st) (c : String) : VisOk (fail st c).1 := by
  obtain ⟨h1, h2, h3⟩ := h
  refine ⟨h1, h2, ?_⟩
  intro t ht
  simp only [fail, List.mem_append, List.mem_singleton] at ht
  rcases ht with ht | rfl
  · exact h3 t ht
  · rfl

theorem visOk_of_parts {st st' : St} (h : VisOk st) (hdb : DbOk st'.db) (hex : st'.exports = st.exports)
    (herr : st'.errs = st.errs) : VisOk st' := by
  obtain ⟨_, h2, h3⟩ := h
  exact ⟨hdb, hex ▸ h2, herr ▸ h3⟩

theorem create_ok {st : St} (h : VisOk st) (w : String) (p : Pass) (b : Nat) : VisOk (create st w p b).1 := by
  unfold create
  split
  · exact h
  · split; · exact fail_ok h _
    split; · exact fail_ok h _
    split; · exact fail_ok h _
    split; · exact fail_ok h _
    split; · exact fail_ok h _
    refine visOk_of_parts h ?_ rfl rfl
    exact dbOk_putAll h.1 (acctEntries_ok _ _ _ _ _ _ _ _ _ _ _ _ (paramsT_pub _ _) (masterKey_not_pub _ _)
      (paramsT_pub _ _) (masterKey_not_pub _ _))

theorem newAddr_ok {st : St} (h : VisOk st) (w : String) : VisOk (newAddr st w).1 := by
  unfold newAddr
  split
  · exact h
  · split
    · exact h
    · refine visOk_of_parts h ?_ rfl rfl
      apply dbOk_put (dbOk_put h.1 rfl)
      simp [pubOk]

theorem exOk_put {ex : AMap.T String Export} {k : String} {x : Export} (h : ExOk ex)
    (hx : ∀ t ∈ x.terms, pubOk t = true) : ExOk (AMap.put ex k x) := by
  intro e he
  rcases mem_put he with rfl | he
  · exact hx
  · exact h e he

theorem setAM_parts (st : St) (w : String) (r : WRec) (a : AM) :
    (setAM st w r a).db = st.db ∧ (setAM st w r a).exports = st.exports ∧ (setAM st w r a).errs = st.errs := by
  simp [setAM]

theorem setAM_ok {st : St} (h : VisOk st) (w : String) (r : WRec) (a : AM) : VisOk (setAM st w r a) := h

theorem exportKS_ok {st : St} (h : VisOk st) (w : String) (p : Pass) (k : String) : VisOk (exportKS st w p k).1 := by
  unfold exportKS
  split
  · exact fail_ok h _
  · split
    · exact fail_ok h _
    · refine ⟨h.1, ?_, h.2.2⟩
      apply exOk_put h.2.1
      intro t ht
      simp only [exportOf, Export.terms, List.mem_cons, List.not_mem_nil, or_false] at ht
      rcases ht with rfl | rfl | rfl | rfl
      · rfl
      all_goals exact dbGet_ok h.1 _ _

theorem mnemonic_ok {st : St} (h : VisOk st) (w : String) (p : Pass) : VisOk (mnemonic st w p).1 := by
  unfold mnemonic
  split
  · exact fail_ok h _
  · split
    · exact fail_ok h _
    · dsimp only
      split
      · exact setAM_ok h _ _ _
      · exact fail_ok (setAM_ok h _ _ _) _

theorem remove_ok {st : St} (h : VisOk st) (w : String) (p : Pass) : VisOk (remove st w p).1 := by
  unfold remove
  split
  · exact fail_ok h _
  · split
    · exact fail_ok h _
    · exact visOk_of_parts h (dbOk_eraseWallet h.1 w) rfl rfl

theorem importKS_ok {st : St} (h : VisOk st) (k : String) (p : Pass) : VisOk (importKS st k p).1 := by
  unfold importKS
  split
  · exact h
  · rename_i x hx
    split
    · exact fail_ok h _
    · rename_i mkPriv hmk
      split
      · split; · exact fail_ok h _
        split; · exact fail_ok h _
        refine visOk_of_parts h ?_ rfl rfl
        have hpp : pubOk x.privParams = true := by
          have := h.2.1 (k, x) (get_mem hx) x.privParams
          apply this
          simp [Export.terms]
        exact dbOk_putAll h.1 (acctEntries_ok _ _ _ _ _ _ _ _ _ _ _ _ hpp (deriveKey_not_pub hmk)
          (paramsT_pub _ _) (masterKey_not_pub _ _))
      · exact fail_ok h _

theorem importMn_ok {st : St} (h : VisOk st) (w : String) (p : Pass) (src : String) (e i : Nat) :
    VisOk (importMn st w p src e i).1 := by
  unfold importMn
  split
  · exact h
  · dsimp only
    generalize identName st _ p w = name
    split; · exact h
    split; · exact fail_ok h _
    split; · exact fail_ok h _
    refine visOk_of_parts h ?_ rfl rfl
    exact dbOk_putAll h.1 (acctEntries_ok _ _ _ _ _ _ _ _ _ _ _ _ (paramsT_pub _ _) (masterKey_not_pub _ _)
      (paramsT_pub _ _) (masterKey_not_pub _ _))

theorem chpub_fold_ok (db0 : DB) (old new : Pass) (ws : List (String × WRec × AM)) :
    ∀ (acc : DB × Nat), DbOk acc.1 →
    DbOk (ws.foldl (fun (acc : DB × Nat) e =>
      let w := e.1
      let ck := match deriveKey (dbGet db0 w .mpub) old with
        | some mkOld => (dec mkOld (dbGet db0 w .cpub)).getD (.pub "missing")
        | none => .pub "missing"
      (AMap.put (AMap.put acc.1 (w, .mpub) (paramsT acc.2 new)) (w, .cpub) (.enc (masterKey acc.2 new) ck), acc.2 + 1)) acc).1 := by
  induction ws with
  | nil => intro acc h; exact h
  | cons x xs ih =>
    intro acc h
    simp only [List.foldl_cons]
    apply ih
    apply dbOk_put (dbOk_put h (paramsT_pub _ _))
    simp [pubOk, masterKey_not_pub]

theorem chpub_ok {st : St} (h : VisOk st) (o n : Pass) : VisOk (chpub st o n).1 := by
  unfold chpub
  split; · exact fail_ok h _
  split; · exact fail_ok h _
  split
  · exact fail_ok h _
  · exact visOk_of_parts h (chpub_fold_ok st.db o n st.wal (st.db, st.nonce) h.1) rfl rfl

theorem chpriv_ok {st : St} (h : VisOk st) (w : String) (o n : Pass) : VisOk (chpriv st w o n).1 := by
  unfold chpriv
  split
  · exact h
  · split; · exact fail_ok h _
    split; · exact fail_ok h _
    split; · exact fail_ok h _
    split; · exact fail_ok h _
    exact fail_ok h _

theorem signHash_ok {st : St} (h : VisOk st) (w : String) (b i : Nat) (p : Pass) : VisOk (signHash st w b i p).1 := by
  unfold signHash
  split
  · exact h
  · dsimp only
    split
    · exact fail_ok (st := { st with wal := clearAll st.wal }) h _
    · exact h

theorem ksSign_ok {st : St} (h : VisOk st) (w : String) (b i : Nat) (p : Pass) : VisOk (ksSign st w b i p).1 := by
  unfold ksSign
  split
  · exact h
  · split
    · split
      · exact fail_ok (setAM_ok h _ _ _) _
      · exact fail_ok h _
    · exact setAM_ok h _ _ _

theorem ksClear_ok {st : St} (h : VisOk st) : VisOk (ksClear st).1 := h

theorem restart_ok {st : St} (h : VisOk st) (p : Pass) : VisOk (restart st p).1 := by
  unfold restart
  dsimp only
  split
  · exact fail_ok (st := { st with wal := clearAll st.wal }) h _
  · split
    · exact h
    · exact fail_ok (st := { st with wal := clearAll st.wal }) h _

theorem step_ok {st : St} (h : VisOk st) (op : Op) : VisOk (step st op).1 := by
  cases op with
  | create w p b => exact create_ok h w p b
  | newAddr w => exact newAddr_ok h w
  | exportKS w p k => exact exportKS_ok h w p k
  | importKS k p => exact importKS_ok h k p
  | importMn w p s e i => exact importMn_ok h w p s e i
  | mnemonic w p => exact mnemonic_ok h w p
  | remove w p => exact remove_ok h w p
  | chpub o n => exact chpub_ok h o n
  | chpriv w o n => exact chpriv_ok h w o n
  | signHash w b i p => exact signHash_ok h w b i p
  | ksSign w b i p => exact ksSign_ok h w b i p
  | ksClear => exact ksClear_ok h
  | restart p => exact restart_ok h p

theorem run_ok (ops : List Op) : ∀ {st : St}, VisOk st → VisOk (run st ops) := by
  induction ops with
  | nil => intro st h; exact h
  | cons o os ih =>
    intro st h
    unfold run
    simp only [List.foldl_cons]
    exact ih (step_ok h o)

theorem init_ok : VisOk ({} : St) := by
  refine ⟨?_, ?_, ?_⟩ <;> intro e he <;> simp at he

end MW.Lemmas.SecretsInv
