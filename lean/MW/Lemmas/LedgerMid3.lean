/-
  The books rollback passes through (`Mid`, LedgerUndo.lean), part 2:
    mid_in_step    Mid B oc k 0     = spendB (Mid B oc (k+1) 0) k i_k       (un-spending input k goes back one step)
    mid_out_step   Mid B oc n (j+1) ≈ uncreateB (Mid B oc n j) j o_j        (removing output j goes back one step)
  with the local invariants of the books in between that the model's rollback steps need.
-/
import MW.Lemmas.LedgerMid2
namespace MW.Lemmas.Ledger
open MW MW.Model.Ledger MW.Spec.Chain MW.Spec.Books

-- ------------------------------------------------------------------ the shape of `Mid`

theorem mid_ncb {p : Params} {own : Own} {B : Book} {oc : Occ} (hcb : oc.t.cb = false) (k : Nat) :
    Mid p own B oc k 0 =
      foldIdx (depositB own oc.t oc.bm) oc.t.outs 0
        (foldIdx (createB p own oc.t oc.bm) oc.t.outs 0 (foldIdx (spendB p oc.t oc.bm) (oc.t.ins.drop k) k B)) := by
  unfold Mid; simp [hcb]

theorem mid_outs {p : Params} {own : Own} {B : Book} {oc : Occ} {k : Nat}
    (hk : oc.t.cb = true ∨ oc.t.ins.length ≤ k) (j : Nat) :
    Mid p own B oc k j =
      foldIdx (depositB own oc.t oc.bm) (oc.t.outs.drop j) j (foldIdx (createB p own oc.t oc.bm) (oc.t.outs.drop j) j B) := by
  unfold Mid
  rcases hk with hk | hk
  · simp [hk]
  · rw [List.drop_of_length_le hk]; simp

-- ------------------------------------------------------------------ un-spending an input

/-- the spend of input `k` commutes to the end (full equality of the books; needs `OccValid` only) -/
theorem mid_in_eq {p : Params} {own : Own} {P : List Occ} {B : Book} {oc : Occ} {k : Nat} {i : Inp}
    (hV : OccValid own P oc) (hcb : oc.t.cb = false) (hi : oc.t.ins[k]? = some i) :
    Mid p own B oc k 0 = spendB p oc.t oc.bm (Mid p own B oc (k + 1) 0) k i := by
  obtain ⟨hlt, hget⟩ := List.getElem?_eq_some_iff.1 hi
  have hdrop : oc.t.ins.drop k = i :: oc.t.ins.drop (k + 1) := by rw [List.drop_eq_getElem_cons hlt, hget]
  have hitx : i.tx ≠ oc.t.id := by
    intro e
    have hm : opOf i ∈ oc.t.ins.map opOf := List.mem_map.2 ⟨i, List.mem_of_getElem? hi, rfl⟩
    have h3 : i.tx ∈ idsOf P := occValid_ins_ids hV hcb hm
    rw [e] at h3; exact hV.1 h3
  have hnd' : ((oc.t.ins.drop k).map opOf).Nodup :=
    List.Nodup.sublist ((List.drop_sublist k _).map opOf) (hV.2.2.1 hcb)
  rw [hdrop, List.map_cons, List.nodup_cons] at hnd'
  have hdist : ∀ i' ∈ oc.t.ins.drop (k + 1), ¬ (i.tx = i'.tx ∧ i.idx = i'.idx) := by
    intro i' hi' h
    apply hnd'.1
    exact List.mem_map.2 ⟨i', hi', by unfold opOf; rw [h.1, h.2]⟩
  rw [mid_ncb hcb k, mid_ncb hcb (k + 1), hdrop, foldIdx_cons,
    spendFold_comm p oc.t oc.bm _ (k + 1) B (by omega) hdist,
    createFold_comm p own oc.t oc.bm hitx, depositFold_comm p own oc.t oc.bm hitx]

set_option linter.unusedVariables false in
theorem mid_in_step {p : Params} {own : Own} {P : List Occ} {B : Book} {oc : Occ} {k : Nat} {i : Inp}
    (hL : Loc p own B) (hG : LocG B) (hW : LocW B) (hGl : Glob own P B) (h2 : Glob2 P B) (hV : OccValid own P oc)
    (hcb : oc.t.cb = false) (hi : oc.t.ins[k]? = some i) :
    BookEq (Mid p own B oc k 0) (spendB p oc.t oc.bm (Mid p own B oc (k + 1) 0) k i) ∧
    Loc p own (Mid p own B oc (k + 1) 0) ∧ LocG (Mid p own B oc (k + 1) 0) ∧ LocW (Mid p own B oc (k + 1) 0) ∧
    (Mid p own B oc (k + 1) 0).debits ⟨oc.t.id, oc.bm, k⟩ = none ∧
    (Mid p own B oc k 0).txrecs = B.txrecs := by
  have heq := mid_in_eq (p := p) (B := B) hV hcb hi
  have hfresh := glob_fresh hGl hV
  obtain ⟨hLS, hGS⟩ := spendFold_loc (p := p) (own := own) (t := oc.t) (bm := oc.bm) (oc.t.ins.drop (k + 1)) (k + 1) B hL hG
  have hFS := spendFold_freshCL (p := p) (t := oc.t) (bm := oc.bm) (tid := oc.t.id) (oc.t.ins.drop (k + 1)) (k + 1) B
    (fun bm j => ⟨(hfresh bm j).1, (hfresh bm j).2.1⟩)
  obtain ⟨hLC, _⟩ := createFold_loc (p := p) (own := own) (t := oc.t) (bm := oc.bm) oc.t.outs 0 _ hLS
    (hGS.toLocGx _) (fun j' _ => hFS oc.bm j')
  have hdl := depositFold_L own oc.t oc.bm oc.t.outs 0
    (foldIdx (createB p own oc.t oc.bm) oc.t.outs 0 (foldIdx (spendB p oc.t oc.bm) (oc.t.ins.drop (k + 1)) (k + 1) B))
  refine ⟨heq ▸ BookEq.refl _, ?_, ?_, ?_, ?_, mid_txrecs ..⟩
  · rw [mid_ncb hcb]; exact hLC.congr hdl.1 hdl.2.1
  · rw [mid_ncb hcb]; exact locG_after_outputs (hGS.toLocGx _) (fun j => (hFS oc.bm j).2)
  · rw [mid_ncb hcb]
    apply locW_outputs
    · exact spendFold_locW _ _ _ hW
    · intro gk hk
      rw [spendFold_game_of _ _ _ _ _ _ _ (by rw [hk]; exact glob_L_ne hGl hV.1)]
      exact (glob2_fresh h2 hV.1).2 gk hk
  · rw [mid_ncb hcb, hdl.2.2.1, createFold_debits,
      spendFold_debits_of _ _ _ _ _ _ _ (Or.inr (Or.inr (Nat.lt_succ_self k)))]
    exact (glob2_fresh h2 hV.1).1 _ rfl

-- ------------------------------------------------------------------ removing an output

theorem createB_credits_congr (p : Params) (own : Own) (t : Tx) (bm : BlockMeta) {B B' : Book} (j : Nat) (o : Out)
    (ck : CredKey) (h : B.credits ck = B'.credits ck) :
    (createB p own t bm B j o).credits ck = (createB p own t bm B' j o).credits ck := by
  unfold createB
  cases ownerOf own o with
  | none => exact h
  | some wc =>
    simp only [upd_apply]
    split
    · rfl
    · exact h

/-- the credit at a key after the create fold only depends on the credit at that key before -/
theorem createFold_credits_congr (p : Params) (own : Own) (t : Tx) (bm : BlockMeta) (os : List Out) (ck : CredKey) :
    ∀ (j : Nat) (B B' : Book), B.credits ck = B'.credits ck →
      (foldIdx (createB p own t bm) os j B).credits ck = (foldIdx (createB p own t bm) os j B').credits ck := by
  induction os with
  | nil => intro j B B' h; exact h
  | cons o os ih =>
    intro j B B' h
    rw [foldIdx_cons, foldIdx_cons]
    exact ih (j + 1) _ _ (createB_credits_congr p own t bm j o ck h)

theorem depositB_game_congr (own : Own) (t : Tx) (bm : BlockMeta) {B B' : Book} (j : Nat) (o : Out)
    (gk : GameKey) (h : B.game gk = B'.game gk) :
    (depositB own t bm B j o).game gk = (depositB own t bm B' j o).game gk := by
  unfold depositB
  cases ownerOf own o with
  | none => exact h
  | some wc =>
    by_cases hd : isDeposit o.cls = true
    · simp only [hd, if_true, upd_apply]
      split
      · rfl
      · exact h
    · simp only [hd]; exact h

/-- the deposit record at a key after the deposit fold only depends on the record at that key before -/
theorem depositFold_game_congr (own : Own) (t : Tx) (bm : BlockMeta) (os : List Out) (gk : GameKey) :
    ∀ (j : Nat) (B B' : Book), B.game gk = B'.game gk →
      (foldIdx (depositB own t bm) os j B).game gk = (foldIdx (depositB own t bm) os j B').game gk := by
  induction os with
  | nil => intro j B B' h; exact h
  | cons o os ih =>
    intro j B B' h
    rw [foldIdx_cons, foldIdx_cons]
    exact ih (j + 1) _ _ (depositB_game_congr own t bm j o gk h)

theorem depositB_none {own : Own} {t : Tx} {bm : BlockMeta} {B : Book} {j : Nat} {o : Out}
    (h : ownerOf own o = none) : depositB own t bm B j o = B := by
  unfold depositB; rw [h]

/-- the coins the create fold appends (from index `j` on) sit at indexes ≥ j of transaction `t` -/
theorem mem_newCoins {own : Own} {t : Tx} {bm : BlockMeta} {os : List Out} {j : Nat} {u : UCoin}
    (h : u ∈ (os.zipIdx j).filterMap (mkU own t bm)) : u.tx = t.id ∧ j ≤ u.idx := by
  obtain ⟨⟨o, m⟩, hm, hu⟩ := List.mem_filterMap.1 h
  obtain ⟨hle, _⟩ := List.mem_zipIdx_iff_le_and_getElem?_sub.1 hm
  obtain ⟨_, h2, h3, _⟩ := (mkU_eq_some ..).1 hu
  exact ⟨h2, by rw [h3]; exact hle⟩

theorem depositB_owned {own : Own} {t : Tx} {bm : BlockMeta} {B : Book} {j : Nat} {o : Out} {w : Wid} {ch : Bool}
    (h : ownerOf own o = some (w, ch)) :
    depositB own t bm B j o =
      if isDeposit o.cls then { B with game := upd B.game ⟨w, o.cls.isBinding, false, t.id, bm.height, j⟩ (some ()) }
      else B := by
  unfold depositB; rw [h]

/-- removing output `j` from the books with outputs ≥ j credited gives the books with outputs > j credited -/
theorem uncreate_step {p : Params} {own : Own} {t : Tx} {bm : BlockMeta} {B : Book} {j : Nat} {o : Out} (R : List Out)
    (hLne : ∀ u ∈ B.L, u.tx ≠ t.id) (hC : B.credits ⟨t.id, bm, j⟩ = none)
    (hGm : ∀ gk : GameKey, gk.tx = t.id → B.game gk = none) :
    BookEq (foldIdx (depositB own t bm) R (j + 1) (foldIdx (createB p own t bm) R (j + 1) B))
      (uncreateB own t bm
        (foldIdx (depositB own t bm) R (j + 1)
          (depositB own t bm (foldIdx (createB p own t bm) R (j + 1) (createB p own t bm B j o)) j o)) j o) := by
  cases hown : ownerOf own o with
  | none =>
    rw [createB_none hown, depositB_none hown]
    unfold uncreateB; rw [hown]
    exact BookEq.refl _
  | some wc =>
    obtain ⟨w, ch⟩ := wc
    unfold uncreateB; rw [hown]
    have hd1 := depositFold_L own t bm R (j + 1) (foldIdx (createB p own t bm) R (j + 1) B)
    have hd2 := depositFold_L own t bm R (j + 1)
      (depositB own t bm (foldIdx (createB p own t bm) R (j + 1) (createB p own t bm B j o)) j o)
    have hb := depositB_L own t bm (foldIdx (createB p own t bm) R (j + 1) (createB p own t bm B j o)) j o
    have hZ : ∀ gk, (foldIdx (createB p own t bm) R (j + 1) B).game gk =
        (foldIdx (createB p own t bm) R (j + 1) (createB p own t bm B j o)).game gk := by
      intro gk; rw [createFold_game, createFold_game, createB_game]
    constructor
    · -- L
      show _ = List.filter _ _
      rw [hd1.1, hd2.1, hb.1, createFold_L, createFold_L, (createB_owned hown).1,
        List.filter_append, List.filter_append]
      have e1 : B.L.filter (fun u => !UCoin.at t.id j u) = B.L := by
        apply List.filter_eq_self.2
        intro u hu
        have : UCoin.at t.id j u = false := by
          apply Bool.eq_false_iff.2; intro h; exact hLne u hu ((at_iff _ _ _).1 h).1
        simp [this]
      have e2 : List.filter (fun u => !UCoin.at t.id j u) [(⟨w, t.id, j, bm, t.cb, o, ch⟩ : UCoin)] = [] := by
        simp [UCoin.at]
      have e3 : List.filter (fun u => !UCoin.at t.id j u) ((R.zipIdx (j + 1)).filterMap (mkU own t bm)) =
          (R.zipIdx (j + 1)).filterMap (mkU own t bm) := by
        apply List.filter_eq_self.2
        intro u hu
        have hidx := (mem_newCoins hu).2
        have : UCoin.at t.id j u = false := by
          apply Bool.eq_false_iff.2; intro h
          have := ((at_iff _ _ _).1 h).2
          omega
        simp [this]
      rw [e1, e2, e3, List.append_nil]
    · -- credits
      show _ = upd _ _ _
      rw [hd1.2.1, hd2.2.1, hb.2.1]
      funext ck
      simp only [upd_apply]
      by_cases hck : (⟨t.id, bm, j⟩ : CredKey) = ck
      · subst hck
        simp only [if_true]
        rw [createFold_credits_of _ _ _ _ _ _ _ _ (Or.inr (Or.inr (Nat.lt_succ_self j)))]
        exact hC
      · simp only [hck, if_false]
        apply createFold_credits_congr
        rw [createB_credits_of _ _ _ _ _ _ _ _ (fun e => hck e.symm)]
    · -- debits
      show _ = _
      rw [hd1.2.2.1, hd2.2.2.1, hb.2.2.1, createFold_debits, createFold_debits, createB_debits]
    · -- game
      show _ = (if isDeposit o.cls then _ else _)
      by_cases hd : isDeposit o.cls = true
      · simp only [hd, if_true]
        funext gk
        simp only [upd_apply]
        by_cases hgk : (⟨w, o.cls.isBinding, false, t.id, bm.height, j⟩ : GameKey) = gk
        · subst hgk
          simp only [if_true]
          rw [depositFold_game_of _ _ _ _ _ _ _ (Or.inr (Or.inr (Nat.lt_succ_self j))), createFold_game]
          exact hGm _ rfl
        · simp only [hgk, if_false]
          apply depositFold_game_congr
          rw [depositB_owned hown]
          simp only [hd, if_true, upd_apply, hgk, if_false]
          exact hZ gk
      · simp only [hd]
        funext gk
        apply depositFold_game_congr
        rw [depositB_owned hown]
        simp only [hd]
        exact hZ gk
    · -- txrecs
      show _ = _
      rw [hd1.2.2.2.1, hd2.2.2.2.1, hb.2.2.2.1, createFold_txrecs, createFold_txrecs, createB_txrecs]

set_option linter.unusedVariables false in
theorem mid_out_step {p : Params} {own : Own} {P : List Occ} {B : Book} {oc : Occ} {k j : Nat} {o : Out}
    (hL : Loc p own B) (hG : LocG B) (hW : LocW B) (hGl : Glob own P B) (h2 : Glob2 P B) (hV : OccValid own P oc)
    (hk : oc.t.cb = true ∨ oc.t.ins.length ≤ k) (ho : oc.t.outs[j]? = some o) :
    BookEq (Mid p own B oc k (j + 1)) (uncreateB own oc.t oc.bm (Mid p own B oc k j) j o) ∧
    Loc p own (Mid p own B oc k j) ∧
    (∀ w ch, ownerOf own o = some (w, ch) →
      lookupU (Mid p own B oc k j).L oc.t.id j = some ⟨w, oc.t.id, j, oc.bm, oc.t.cb, o, ch⟩ ∧
      (isDeposit o.cls = true →
        (Mid p own B oc k j).game ⟨w, o.cls.isBinding, false, oc.t.id, oc.bm.height, j⟩ = some ())) ∧
    (ownerOf own o = none → (Mid p own B oc k j).credits ⟨oc.t.id, oc.bm, j⟩ = none) ∧
    (Mid p own B oc k j).txrecs = B.txrecs := by
  obtain ⟨hlt, hget⟩ := List.getElem?_eq_some_iff.1 ho
  have hdrop : oc.t.outs.drop j = o :: oc.t.outs.drop (j + 1) := by rw [List.drop_eq_getElem_cons hlt, hget]
  have hfresh := glob_fresh hGl hV
  have hLne := glob_L_ne hGl hV.1
  -- Loc of the books in between
  have hLY : Loc p own (Mid p own B oc k j) := by
    rw [mid_outs hk]
    obtain ⟨hLC, _⟩ := createFold_loc (p := p) (own := own) (t := oc.t) (bm := oc.bm) (oc.t.outs.drop j) j B hL
      (hG.toLocGx _) (fun j' _ => ⟨(hfresh oc.bm j').1, (hfresh oc.bm j').2.1⟩)
    have hdl := depositFold_L own oc.t oc.bm (oc.t.outs.drop j) j (foldIdx (createB p own oc.t oc.bm) (oc.t.outs.drop j) j B)
    exact hLC.congr hdl.1 hdl.2.1
  refine ⟨?_, hLY, ?_, ?_, mid_txrecs ..⟩
  · -- the books one step further
    rw [mid_outs hk (j + 1), mid_outs hk j, hdrop, foldIdx_cons, foldIdx_cons]
    exact uncreate_step _ hLne (hfresh oc.bm j).1 (glob2_fresh h2 hV.1).2
  · -- the coin of output j and its deposit record
    intro w ch hown
    constructor
    · have hmem : (⟨w, oc.t.id, j, oc.bm, oc.t.cb, o, ch⟩ : UCoin) ∈ (Mid p own B oc k j).L := by
        rw [mid_outs hk j, (depositFold_L ..).1, createFold_mem]
        right
        exact ⟨0, o, by rw [hdrop]; rfl, hown, rfl⟩
      exact lookupU_of_mem hLY.keys hmem
    · intro hd
      rw [mid_outs hk j]
      exact depositFold_game own oc.t oc.bm (oc.t.outs.drop j) j _ 0 o w ch (by rw [hdrop]; rfl) hown hd
  · intro hown
    rw [mid_outs hk j, (depositFold_L ..).2.1, hdrop, foldIdx_cons, createB_none hown,
      createFold_credits_of _ _ _ _ _ _ _ _ (Or.inr (Or.inr (Nat.lt_succ_self j)))]
    exact (hfresh oc.bm j).1

-- ------------------------------------------------------------------ the local invariants hold for every `Mid`

/-- `locG_after_outputs` for the outputs from index `j` on -/
theorem locG_after_outputs_from {p : Params} {own : Own} {t : Tx} {bm : BlockMeta} {B : Book} (os : List Out) (j : Nat)
    (hG : LocGx t.id B) (hfresh : ∀ j', lookupU B.L t.id j' = none) :
    LocG (foldIdx (depositB own t bm) os j (foldIdx (createB p own t bm) os j B)) := by
  intro u hu hd
  rw [(depositFold_L own t bm os j _).1] at hu
  by_cases hne : u.tx = t.id
  · rcases createFold_origin p own t bm os j B u hu with h | ⟨m, o, hm, ho, h2, h3, h4, h5⟩
    · exact absurd ⟨hne, rfl⟩ (lookupU_none (hfresh u.idx) u h)
    · have := depositFold_game own t bm os j (foldIdx (createB p own t bm) os j B) m o u.wallet u.change hm ho
        (by rw [← h4]; exact hd)
      unfold UCoin.gameKey
      rw [h2, h3, h4, h5]; exact this
  · apply depositFold_game_mono
    rw [createFold_game]
    rcases createFold_origin p own t bm os j B u hu with h | ⟨m, o, hm, ho, h2, _⟩
    · exact hG u h hne hd
    · exact absurd h2 hne

set_option linter.unusedVariables false in
theorem mid_loc_all {p : Params} {own : Own} {P : List Occ} {B : Book} {oc : Occ}
    (hL : Loc p own B) (hG : LocG B) (hW : LocW B) (hGl : Glob own P B) (h2 : Glob2 P B) (hV : OccValid own P oc)
    (k j : Nat) :
    Loc p own (Mid p own B oc k j) ∧ LocG (Mid p own B oc k j) ∧ LocW (Mid p own B oc k j) := by
  have hfresh := glob_fresh hGl hV
  -- the spend part
  have hS : ∃ S : Book, Mid p own B oc k j =
        foldIdx (depositB own oc.t oc.bm) (oc.t.outs.drop j) j (foldIdx (createB p own oc.t oc.bm) (oc.t.outs.drop j) j S) ∧
      Loc p own S ∧ LocG S ∧ LocW S ∧
      (∀ bm j', S.credits ⟨oc.t.id, bm, j'⟩ = none ∧ lookupU S.L oc.t.id j' = none) ∧
      (∀ gk : GameKey, gk.tx = oc.t.id → S.game gk = none) := by
    refine ⟨if oc.t.cb then B else foldIdx (spendB p oc.t oc.bm) (oc.t.ins.drop k) k B, rfl, ?_⟩
    by_cases hcb : oc.t.cb = true
    · rw [if_pos hcb]
      exact ⟨hL, hG, hW, fun bm j' => ⟨(hfresh bm j').1, (hfresh bm j').2.1⟩, (glob2_fresh h2 hV.1).2⟩
    · rw [if_neg hcb]
      obtain ⟨hLS, hGS⟩ := spendFold_loc (p := p) (own := own) (t := oc.t) (bm := oc.bm) (oc.t.ins.drop k) k B hL hG
      refine ⟨hLS, hGS, spendFold_locW _ _ _ hW,
        spendFold_freshCL _ _ _ (fun bm j' => ⟨(hfresh bm j').1, (hfresh bm j').2.1⟩), ?_⟩
      intro gk hk
      rw [spendFold_game_of _ _ _ _ _ _ _ (by rw [hk]; exact glob_L_ne hGl hV.1)]
      exact (glob2_fresh h2 hV.1).2 gk hk
  obtain ⟨S, hM, hLS, hGS, hWS, hFS, hGmS⟩ := hS
  rw [hM]
  obtain ⟨hLC, _⟩ := createFold_loc (p := p) (own := own) (t := oc.t) (bm := oc.bm) (oc.t.outs.drop j) j S hLS
    (hGS.toLocGx _) (fun j' _ => hFS oc.bm j')
  have hdl := depositFold_L own oc.t oc.bm (oc.t.outs.drop j) j (foldIdx (createB p own oc.t oc.bm) (oc.t.outs.drop j) j S)
  exact ⟨hLC.congr hdl.1 hdl.2.1, locG_after_outputs_from _ _ (hGS.toLocGx _) (fun j' => (hFS oc.bm j').2),
    locW_outputs _ _ hWS hGmS⟩

end MW.Lemmas.Ledger
