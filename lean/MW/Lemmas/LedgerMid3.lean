/-
  The books rollback passes through (`Mid`, LedgerUndo.lean), part 2:
    mid_in_step    Mid B oc k 0     = spendB (Mid B oc (k+1) 0) k i_k       (un-spending input k goes back one step)
    mid_out_step   Mid B oc n (j+1) ≈ uncreateB (Mid B oc n j) j o_j        (removing output j goes back one step)
  with the local invariants of the books in between that the model's rollback steps need.
-/
import MW.Lemmas.LedgerMid2
namespace MW.Lemmas.Ledger
open MW MW.Model.Ledger MW.Spec.Chain MW.Spec.Books

-- ------------------------------------------------------------------ the shape of `Mid`

theorem mid_ncb {p : Params} {own : Own} {B : Book} {oc : Occ} (hcb : oc.t.cb = false) (k : Nat) :
    Mid p own B oc k 0 =
      foldIdx (depositB own oc.t oc.bm) oc.t.outs 0
        (foldIdx (createB p own oc.t oc.bm) oc.t.outs 0 (foldIdx (spendB p oc.t oc.bm) (oc.t.ins.drop k) k B)) := by
  unfold Mid; simp [hcb]

theorem mid_outs {p : Params} {own : Own} {B : Book} {oc : Occ} {k : Nat}
    (hk : oc.t.cb = true ∨ oc.t.ins.length ≤ k) (j : Nat) :
    Mid p own B oc k j =
      foldIdx (depositB own oc.t oc.bm) (oc.t.outs.drop j) j (foldIdx (createB p own oc.t oc.bm) (oc.t.outs.drop j) j B) := by
  unfold Mid
  rcases hk with hk | hk
  · simp [hk]
  · rw [List.drop_of_length_le hk]; simp

-- ------------------------------------------------------------------ un-spending an input

/-- the spend of input `k` commutes to the end (full equality of the books; needs `OccValid` only) -/
theorem mid_in_eq {p : Params} {own : Own} {P : List Occ} {B : Book} {oc : Occ} {k : Nat} {i : Inp}
    (hV : OccValid own P oc) (hcb : oc.t.cb = false) (hi : oc.t.ins[k]? = some i) :
    Mid p own B oc k 0 = spendB p oc.t oc.bm (Mid p own B oc (k + 1) 0) k i := by
  obtain ⟨hlt, hget⟩ := List.getElem?_eq_some_iff.1 hi
  have hdrop : oc.t.ins.drop k = i :: oc.t.ins.drop (k + 1) := by rw [List.drop_eq_getElem_cons hlt, hget]
  have hitx : i.tx ≠ oc.t.id := by
    intro e
    have hm : opOf i ∈ oc.t.ins.map opOf := List.mem_map.2 ⟨i, List.mem_of_getElem? hi, rfl⟩
    have h3 : i.tx ∈ idsOf P := occValid_ins_ids hV hcb hm
    rw [e] at h3; exact hV.1 h3
  have hnd' : ((oc.t.ins.drop k).map opOf).Nodup :=
    List.Nodup.sublist ((List.drop_sublist k _).map opOf) (hV.2.2.1 hcb)
  rw [hdrop, List.map_cons, List.nodup_cons] at hnd'
  have hdist : ∀ i' ∈ oc.t.ins.drop (k + 1), ¬ (i.tx = i'.tx ∧ i.idx = i'.idx) := by
    intro i' hi' h
    apply hnd'.1
    exact List.mem_map.2 ⟨i', hi', by unfold opOf; rw [h.1, h.2]⟩
  rw [mid_ncb hcb k, mid_ncb hcb (k + 1), hdrop, foldIdx_cons,
    spendFold_comm p oc.t oc.bm _ (k + 1) B (by omega) hdist,
    createFold_comm p own oc.t oc.bm hitx, depositFold_comm p own oc.t oc.bm hitx]

set_option linter.unusedVariables false in
theorem mid_in_step {p : Params} {own : Own} {P : List Occ} {B : Book} {oc : Occ} {k : Nat} {i : Inp}
    (hL : Loc p own B) (hG : LocG B) (hW : LocW B) (hGl : Glob own P B) (h2 : Glob2 P B) (hV : OccValid own P oc)
    (hcb : oc.t.cb = false) (hi : oc.t.ins[k]? = some i) :
    BookEq (Mid p own B oc k 0) (spendB p oc.t oc.bm (Mid p own B oc (k + 1) 0) k i) ∧
    Loc p own (Mid p own B oc (k + 1) 0) ∧ LocG (Mid p own B oc (k + 1) 0) ∧ LocW (Mid p own B oc (k + 1) 0) ∧
    (Mid p own B oc (k + 1) 0).debits ⟨oc.t.id, oc.bm, k⟩ = none ∧
    (Mid p own B oc k 0).txrecs = B.txrecs := by
  have heq := mid_in_eq (p := p) (B := B) hV hcb hi
  have hfresh := glob_fresh hGl hV
  obtain ⟨hLS, hGS⟩ := spendFold_loc (p := p) (own := own) (t := oc.t) (bm := oc.bm) (oc.t.ins.drop (k + 1)) (k + 1) B hL hG
  have hFS := spendFold_freshCL (p := p) (t := oc.t) (bm := oc.bm) (tid := oc.t.id) (oc.t.ins.drop (k + 1)) (k + 1) B
    (fun bm j => ⟨(hfresh bm j).1, (hfresh bm j).2.1⟩)
  obtain ⟨hLC, _⟩ := createFold_loc (p := p) (own := own) (t := oc.t) (bm := oc.bm) oc.t.outs 0 _ hLS
    (hGS.toLocGx _) (fun j' _ => hFS oc.bm j')
  have hdl := depositFold_L own oc.t oc.bm oc.t.outs 0
    (foldIdx (createB p own oc.t oc.bm) oc.t.outs 0 (foldIdx (spendB p oc.t oc.bm) (oc.t.ins.drop (k + 1)) (k + 1) B))
  refine ⟨heq ▸ BookEq.refl _, ?_, ?_, ?_, ?_, mid_txrecs ..⟩
  · rw [mid_ncb hcb]; exact hLC.congr hdl.1 hdl.2.1
  · rw [mid_ncb hcb]; exact locG_after_outputs (hGS.toLocGx _) (fun j => (hFS oc.bm j).2)
  · rw [mid_ncb hcb]
    apply locW_outputs
    · exact spendFold_locW _ _ _ hW
    · intro gk hk
      rw [spendFold_game_of _ _ _ _ _ _ _ (by rw [hk]; exact glob_L_ne hGl hV.1)]
      exact (glob2_fresh h2 hV.1).2 gk hk
  · rw [mid_ncb hcb, hdl.2.2.1, createFold_debits,
      spendFold_debits_of _ _ _ _ _ _ _ (Or.inr (Or.inr (Nat.lt_succ_self k)))]
    exact (glob2_fresh h2 hV.1).1 _ rfl

end MW.Lemmas.Ledger
