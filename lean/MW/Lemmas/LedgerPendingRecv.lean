/-
  Helper lemmas for C09, part 7: a transaction is received (insertUnminedInputs, addUnminedCredits,
  addRelevantUnmined) and well-formedness is preserved by receiving and by confirming.
-/
import MW.Lemmas.LedgerPendingConfirm
namespace MW.Lemmas.LedgerPending
open MW MW.Model.Ledger

-- ------------------------------------------------------------------ insertUnminedInputs

/-- one step of insertUnminedInputs (and of the input loop of Rollback) -/
def addSpender (id : TxId) (s : Store) (i : Inp) : Store :=
  { s with pendIns := putPendIn s.pendIns (i.tx, i.idx) id }

theorem insertUnminedInputs_eq (s : Store) (tr : TxRec) :
    insertUnminedInputs s tr = tr.tx.ins.foldl (addSpender tr.tx.id) s := rfl

theorem putPendIn_listed (s : Store) (k : TxId × Nat) (id : TxId) (op : TxId × Nat) (x : TxId) :
    Listed { s with pendIns := putPendIn s.pendIns k id } op x ↔ Listed s op x ∨ (op = k ∧ x = id) := by
  unfold Listed putPendIn
  show (∃ l, AMap.get (AMap.put s.pendIns k _) op = some l ∧ x ∈ l) ↔ _
  rw [AMap.get_put]
  by_cases hk : k = op
  · subst hk
    simp only [if_true]
    constructor
    · rintro ⟨l, hl, hx⟩
      cases hl
      rcases List.mem_append.mp hx with h | h
      · left
        cases hg : AMap.get s.pendIns k with
        | none => rw [hg] at h; cases h
        | some l' => rw [hg] at h; exact ⟨l', rfl, h⟩
      · right; exact ⟨by simp, by simpa using h⟩
    · rintro (⟨l, hl, hx⟩ | ⟨_, hx⟩)
      · exact ⟨_, rfl, List.mem_append.mpr (Or.inl (by rw [hl]; exact hx))⟩
      · exact ⟨_, rfl, List.mem_append.mpr (Or.inr (by simp [hx]))⟩
  · have : ¬ op = k := fun h => hk h.symm
    simp [hk, this]

theorem putPendIn_noEmpty (s : Store) (k : TxId × Nat) (id : TxId) (h : NoEmpty s) :
    NoEmpty { s with pendIns := putPendIn s.pendIns k id } := by
  intro op
  show AMap.get (putPendIn s.pendIns k id) op ≠ some []
  unfold putPendIn
  rw [AMap.get_put]; split
  · intro hc; injection hc with hc; simp at hc
  · exact h op

theorem addSpender_listed (id : TxId) (s : Store) (i : Inp) (op : TxId × Nat) (x : TxId) :
    Listed (addSpender id s i) op x ↔ Listed s op x ∨ (op = (i.tx, i.idx) ∧ x = id) := putPendIn_listed s _ id op x

theorem insertUnminedInputs_listed (s : Store) (tr : TxRec) (op : TxId × Nat) (x : TxId) :
    Listed (insertUnminedInputs s tr) op x ↔ Listed s op x ∨ (x = tr.tx.id ∧ Spends tr.tx op) := by
  rw [insertUnminedInputs_eq]
  unfold Spends
  generalize tr.tx.ins = l
  induction l generalizing s with
  | nil => simp
  | cons i l ih =>
    simp only [List.foldl]
    rw [ih, addSpender_listed]
    constructor
    · rintro ((h | ⟨h1, h2⟩) | ⟨h1, j, hj, hop⟩)
      · exact Or.inl h
      · exact Or.inr ⟨h2, i, by simp, h1.symm⟩
      · exact Or.inr ⟨h1, j, by simp [hj], hop⟩
    · rintro (h | ⟨h1, j, hj, hop⟩)
      · exact Or.inl (Or.inl h)
      · rcases List.mem_cons.mp hj with rfl | hj
        · exact Or.inl (Or.inr ⟨hop.symm, h1⟩)
        · exact Or.inr ⟨h1, j, hj, hop⟩

theorem insertUnminedInputs_frame (s : Store) (tr : TxRec) : exceptIns (insertUnminedInputs s tr) = exceptIns s := by
  rw [insertUnminedInputs_eq]
  exact foldl_inv (fun (a : Store) => exceptIns a = exceptIns s) _ _ _ rfl (fun a x _ ha => ha)

theorem insertUnminedInputs_noEmpty (s : Store) (tr : TxRec) (h : NoEmpty s) : NoEmpty (insertUnminedInputs s tr) := by
  rw [insertUnminedInputs_eq]
  exact foldl_inv NoEmpty _ _ _ h (fun a x _ ha => putPendIn_noEmpty a _ _ ha)

-- ------------------------------------------------------------------ addUnminedCredits

/-- the buckets addUnminedCredits leaves alone -/
def exceptCredGame (s : Store) := (s.pending, s.pendIns, minedOf s)

theorem addUnminedCredit_ok (tr : TxRec) (s s' : Store) (rel : Rel) (h : addUnminedCredit tr s rel = .ok s') :
    s' = { s with pendCred := AMap.put s.pendCred (tr.tx.id, rel.index) (unminedCreditOf rel) } ∧
    AMap.get s.pendCred (tr.tx.id, rel.index) = none ∧
    AMap.get s.unspent (rel.wallet, tr.tx.id, rel.index) = none := by
  unfold addUnminedCredit at h
  split at h
  · cases h
  · split at h
    · cases h
    · rename_i h1 h2
      simp only [pure, Except.pure, Except.ok.injEq] at h
      refine ⟨h.symm, ?_, ?_⟩
      · cases hg : AMap.get s.pendCred (tr.tx.id, rel.index) <;> simp_all
      · cases hg : AMap.get s.unspent (rel.wallet, tr.tx.id, rel.index) <;> simp_all

theorem addUnminedCredits_ok (s s' : Store) (tr : TxRec) (h : addUnminedCredits s tr = .ok s') :
    exceptCredGame s' = exceptCredGame s ∧
    (∀ k, (AMap.get s.pendCred k).isSome → (AMap.get s'.pendCred k).isSome) ∧
    (∀ rel ∈ tr.relOut, (AMap.get s'.pendCred (tr.tx.id, rel.index)).isSome ∧
      AMap.get s'.unspent (rel.wallet, tr.tx.id, rel.index) = none) := by
  unfold addUnminedCredits at h
  simp only [bind, Except.bind] at h
  cases hf : List.foldlM (addUnminedCredit tr) s tr.relOut with
  | error e => rw [hf] at h; cases h
  | ok s1 =>
    rw [hf] at h
    simp only [pure, Except.pure, Except.ok.injEq] at h
    -- the first loop
    have hloop : ∀ (l : List Rel) (a r : Store), List.foldlM (addUnminedCredit tr) a l = .ok r →
        exceptCredGame r = exceptCredGame a ∧ r.pendGame = a.pendGame ∧
        (∀ k, (AMap.get a.pendCred k).isSome → (AMap.get r.pendCred k).isSome) ∧
        (∀ rel ∈ l, (AMap.get r.pendCred (tr.tx.id, rel.index)).isSome ∧
          AMap.get a.unspent (rel.wallet, tr.tx.id, rel.index) = none) := by
      intro l
      induction l with
      | nil =>
        intro a r hr; simp [List.foldlM, pure, Except.pure] at hr; subst hr
        exact ⟨rfl, rfl, fun _ h => h, fun _ h => by cases h⟩
      | cons x l ih =>
        intro a r hr
        simp only [List.foldlM, bind, Except.bind] at hr
        cases hx : addUnminedCredit tr a x with
        | error e => rw [hx] at hr; cases hr
        | ok a' =>
          rw [hx] at hr
          obtain ⟨e1, e2, e3⟩ := addUnminedCredit_ok tr a a' x hx
          obtain ⟨r1, r2, r3, r4⟩ := ih a' r hr
          have hmono : ∀ k, (AMap.get a.pendCred k).isSome → (AMap.get a'.pendCred k).isSome := by
            intro k hk; rw [e1]; show (AMap.get (AMap.put a.pendCred _ _) k).isSome
            rw [AMap.get_put]; split <;> simp [hk]
          have hun : a'.unspent = a.unspent := by rw [e1]
          refine ⟨r1.trans (by rw [e1]; rfl), r2.trans (by rw [e1]), fun k hk => r3 k (hmono k hk), ?_⟩
          intro rel hrel
          rcases List.mem_cons.mp hrel with rfl | hrel
          · refine ⟨r3 _ ?_, e3⟩
            rw [e1]; show (AMap.get (AMap.put a.pendCred _ _) _).isSome
            rw [AMap.get_put]; simp
          · have := r4 rel hrel
            rw [hun] at this; exact this
    obtain ⟨l1, l2, l3, l4⟩ := hloop tr.relOut s s1 hf
    -- the second loop only writes pendGame
    have hsecond : ∀ (g : List Rel) (a : Store), exceptCredGame (g.foldl (fun s rel =>
        { s with pendGame := AMap.put s.pendGame (rel.wallet, rel.out.cls.isBinding, tr.tx.id, rel.index) () }) a) =
          exceptCredGame a ∧ (g.foldl (fun s rel =>
        { s with pendGame := AMap.put s.pendGame (rel.wallet, rel.out.cls.isBinding, tr.tx.id, rel.index) () }) a).pendCred =
          a.pendCred := by
      intro g a
      exact foldl_inv (fun (b : Store) => exceptCredGame b = exceptCredGame a ∧ b.pendCred = a.pendCred) _ _ _
        ⟨rfl, rfl⟩ (fun b x _ hb => hb)
    obtain ⟨g1, g2⟩ := hsecond (gameOuts tr) s1
    rw [← h]
    refine ⟨g1.trans l1, fun k hk => by rw [g2]; exact l3 k hk, fun rel hrel => ?_⟩
    have := l4 rel hrel
    refine ⟨by rw [g2]; exact this.1, ?_⟩
    have hm : minedOf _ = minedOf s := (Prod.mk.inj (Prod.mk.inj (g1.trans l1)).2).2
    have hu : (List.foldl (fun s rel =>
        { s with pendGame := AMap.put s.pendGame (rel.wallet, rel.out.cls.isBinding, tr.tx.id, rel.index) () }) s1
          (gameOuts tr)).unspent = s.unspent := by
      have := congrArg (fun m => m.2.1) hm
      exact this
    rw [hu]; exact this.2

end MW.Lemmas.LedgerPending
