/-
  Non-vacuity of `ObsHyp` (hypotheses of coins_perm / balance_correct / spendable_iff): a concrete
  three-block chain, the store the follower builds for it, and the observation theorems instantiated.
-/
import MW.Lemmas.LedgerObs3
namespace MW.Lemmas.Ledger
open MW MW.Model.Ledger MW.Spec.Chain MW.Spec.Books

/-- genesis (no transactions) followed by the two blocks of `exChain`: heights 0, 1, 2 -/
def obChain : List Block := ⟨"G", "", 0, []⟩ :: exChain

def obCtx : Ctx := ⟨{ cbMaturity := 1 }, exOwn, ["w1"], { chain := obChain }⟩

/-- the store of a fresh wallet "w1" synced to genesis -/
def obS0 : Store :=
  { balance := [("w1", 0)], sync := [(0, "G")], syncedTo := 0, status := [("w1", ⟨none, false⟩)] }

theorem obValid : ChainValid exOwn obChain := by decide

theorem obHeights : HeightsOK obChain := by
  intro i b h
  match i with
  | 0 => simp [obChain] at h; rw [← h]
  | 1 => simp [obChain, exChain] at h; rw [← h]
  | 2 => simp [obChain, exChain] at h; rw [← h]
  | n + 3 => simp [obChain, exChain] at h

theorem obReady : readyWallets obS0 obCtx.wallets = ["w1"] := by decide

theorem obInv0 : Inv obCtx obS0 [⟨"G", "", 0, []⟩] := by
  have hB : bookOf obCtx.p obCtx.own [⟨"G", "", 0, []⟩] = {} := rfl
  constructor
  · rw [hB]
    exact ⟨fun _ _ _ => rfl, fun _ => rfl, fun _ => rfl, fun _ => rfl, fun _ => rfl, fun _ => rfl⟩
  · intro w hw
    rw [hB, obReady] at *
    have : w = "w1" := by simpa using hw
    subst this
    rfl
  · intro h
    match h with
    | 0 => rfl
    | n + 1 =>
      have h1 : AMap.get obS0.sync (n + 1) = none := by
        simp [obS0, AMap.get_cons, AMap.get_nil]
      rw [h1]; simp [syncOf]
  · rfl

theorem obAllReady : AllReady exOwn ["w1"] := by
  intro a w ch h
  simp only [exOwn, AMap.get_cons, AMap.get_nil] at h
  split at h
  · simp only [Option.some.injEq, Prod.mk.injEq] at h; rw [← h.1]; rfl
  · split at h
    · simp only [Option.some.injEq, Prod.mk.injEq] at h; rw [← h.1]; rfl
    · cases h

/-- the store the follower reaches on `obChain` -/
def obS : Store :=
  match connectAll obCtx (readyWallets obS0 obCtx.wallets) exChain obS0 [] with
  | .ok (s, _) => s
  | .error _ => obS0

theorem obHyp : ObsHyp obCtx obS obChain ∧ (readyWallets obS obCtx.wallets).contains "w1" = true := by
  obtain ⟨s', added, h, hI, hst, _⟩ := connectAll_sound (c := obCtx) exChain obS0 [⟨"G", "", 0, []⟩] [] []
    obInv0 (by simp [obCtx, obChain]) obValid obHeights (by rw [obReady]; exact obAllReady)
    (by rw [obReady]; rfl)
  have hs : obS = s' := by unfold obS; rw [h]
  rw [hs]
  refine ⟨⟨hI, ?_, obValid, obHeights, by decide, by decide, ?_⟩, ?_⟩
  · rw [← hs]; unfold KeysNodup; decide
  · intro x hx f hf
    have hl : ledgerOf obCtx.own obChain = [⟨"w1", "t1", 1, 30, 2, false, .std, "a2"⟩] := by decide
    rw [hl] at hx
    simp only [List.mem_singleton] at hx
    subst hx
    cases hf
  · rw [readyWallets_congr hst, obReady]; rfl

/-- the observation theorems on the example -/
example : walletBalance obS "w1" 1 = some (Spec.Chain.balance obCtx.p exOwn obChain "w1" 1) :=
  balance_correct obHyp.1 obHyp.2 1

example : ((coinsOf obS "w1").map (obsM obS.syncedTo)).Perm
    ((utxosOf exOwn obChain "w1").map (obsS obCtx.p 2)) :=
  coins_perm obHyp.1 "w1"

example : Spec.Chain.balance obCtx.p exOwn obChain "w1" 1 = ⟨30, 30, 0, 0⟩ := by decide

/-- the wallet really lists one coin there (t1:1, 30 units at height 2, 1 confirmation) -/
example : (coinsOf obS "w1").map (obsM obS.syncedTo) = [⟨"t1", 1, 30, 2, 0, 1, "a2"⟩] := by decide

end MW.Lemmas.Ledger
