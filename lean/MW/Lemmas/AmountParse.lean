/-
  The MODEL of api.StringToAmount (MW.Model.Amount.parse) against the SPEC, for ALL byte strings.
-/
import MW.Model.Amount
import MW.Lemmas.AmountSpec
namespace MW.Model.Amount
open MW MW.Dec

/-! ### the model, cut into the prefix checks and the conversion tail (same statements, same order) -/

/-- the integral part after `TrimLeft(…, "0")` and the `"0"` default -/
def normInt (x : Bytes) : Bytes := let t := trimLeft0 x; if t.length = 0 then [c0] else t

/-- the statements of StringToAmount from the precision check on -/
def parseTail (sInt sFrac0 : Bytes) : Except Err Nat := do
  if sFrac0.length > 8 then throw .precision
  let sFrac := sFrac0 ++ zeros (8 - sFrac0.length)
  let i ← parseInt64 sInt
  if i < 0 || i.toNat > maxMass then throw .range
  let f ← parseInt64 sFrac
  if f < 0 then throw .format
  let u := perMass * i.toNat + f.toNat
  if u > maxAmount then throw .range
  pure u

theorem parse_eq (s : Bytes) : parse s =
    if (splitDot s).length > 2 then .error .format
    else if !((splitDot s).all (fun p => p.all isDigit)) then .error .format
    else if ((splitDot s).map List.length).sum = 0 then .error .format
    else parseTail (normInt ((splitDot s).headD []))
      (if (splitDot s).length = 2 then trimRight0 ((splitDot s).getD 1 []) else []) := by
  unfold parse parseTail normInt
  by_cases h1 : (splitDot s).length > 2
  · simp only [h1, if_true]; rfl
  · by_cases h2 : (!((splitDot s).all (fun p => p.all isDigit))) = true
    · simp only [h1, h2, if_true, if_false]; rfl
    · by_cases h3 : ((splitDot s).map List.length).sum = 0
      · simp only [h1, h2, h3, if_true, if_false]; rfl
      · simp only [h1, h2, h3, if_false]; rfl

/-! ### normInt -/

theorem normInt_def (x : Bytes) : normInt x = if (trimLeft0 x).length = 0 then [c0] else trimLeft0 x := rfl

theorem normInt_ne_nil (x : Bytes) : normInt x ≠ [] := by
  rw [normInt_def]
  split
  · simp
  · next h => intro e; rw [e] at h; exact h rfl

theorem normInt_all {x : Bytes} (h : x.all isDigit = true) : (normInt x).all isDigit = true := by
  rw [normInt_def]
  split
  · simp [isDigit_c0]
  · exact trimLeft0_all h

theorem ofDigits_normInt (x : Bytes) : ofDigits (normInt x) = ofDigits x := by
  rw [normInt_def]
  split
  · next h =>
    have := ofDigits_trimLeft0 x
    rw [List.eq_nil_of_length_eq_zero h, ofDigits_nil] at this
    rw [ofDigits_singleton, dval_c0, ← this]
  · exact ofDigits_trimLeft0 x

/-! ### strconv.ParseInt on digit strings -/

theorem parseInt64_digits {ds : Bytes} (hne : ds ≠ []) (hall : ds.all isDigit = true) :
    parseInt64 ds = if ofDigits ds ≤ int64Max then .ok (ofDigits ds : Int) else .error .range := by
  cases ds with
  | nil => exact absurd rfl hne
  | cons b rest =>
    have hb : isDigit b = true := by simp only [List.all_cons, Bool.and_eq_true] at hall; exact hall.1
    have h43 : b ≠ 43 := by intro e; subst e; revert hb; decide
    have h45 : b ≠ 45 := by intro e; subst e; revert hb; decide
    unfold parseInt64
    simp only [h43, h45, if_false]
    have : ((b :: rest).isEmpty || !(b :: rest).all isDigit) = false := by
      rw [hall]; rfl
    simp only [this]
    rfl

/-! ### the conversion tail -/

theorem ok_bind {α β : Type} (v : α) (f : α → Except Err β) : (Except.ok v >>= f) = f v := rfl
theorem error_bind {α β : Type} (e : Err) (f : α → Except Err β) :
    ((Except.error e : Except Err α) >>= f) = Except.error e := rfl
theorem throw_bind {α β : Type} (e : Err) (f : α → Except Err β) :
    ((throw e : Except Err α) >>= f) = Except.error e := rfl

/-- on digit strings the tail computes `a·10^8 + x·10^(8-|x|)` and accepts it iff it is within the supply;
    the int64 check and the MaxMass check never reject anything the final check would accept -/
theorem parseTail_toOption {a x : Bytes} (ha : a ≠ []) (haD : a.all isDigit = true)
    (hx : x.all isDigit = true) (hl : x.length ≤ 8) :
    (parseTail a x).toOption =
      if ofDigits a * 10 ^ 8 + ofDigits x * 10 ^ (8 - x.length) ≤ maxAmount
      then some (ofDigits a * 10 ^ 8 + ofDigits x * 10 ^ (8 - x.length)) else none := by
  unfold parseTail
  have h8 : ¬ x.length > 8 := by omega
  have hy : (x ++ zeros (8 - x.length)) ≠ [] := by
    have h : (x ++ zeros (8 - x.length)).length = 8 := by rw [List.length_append, zeros_length]; omega
    intro e; rw [e] at h; exact absurd h (by decide)
  have hyD : (x ++ zeros (8 - x.length)).all isDigit = true := by
    rw [List.all_append, hx, zeros_all_isDigit]; rfl
  simp only [h8, if_false]
  rw [parseInt64_digits ha haD, parseInt64_digits hy hyD, ofDigits_append_zeros]
  have hF := Spec.Amount.frac_lt hx hl
  generalize ofDigits x * 10 ^ (8 - x.length) = F at hF ⊢
  generalize ofDigits a = A
  have hFi : F ≤ int64Max := by unfold int64Max; omega
  have hm : maxAmount = 20643840000000000 := rfl
  have hmm : maxMass = 206438400 := rfl
  have hpm : perMass = 100000000 := rfl
  have hi : int64Max = 9223372036854775807 := rfl
  by_cases hA : A ≤ int64Max
  · simp only [hA, hFi, if_true, ok_bind]
    have hneg : ¬ ((A : Int) < 0) := by omega
    have hnegF : ¬ ((F : Int) < 0) := by omega
    simp only [Int.toNat_natCast, hneg, hnegF, decide_false, Bool.false_or, decide_eq_true_eq, if_false]
    by_cases hM : A > maxMass
    · simp only [hM, if_true, throw_bind]
      have : ¬ (A * 10 ^ 8 + F ≤ maxAmount) := by rw [hm]; rw [hmm] at hM; omega
      rw [if_neg this]; rfl
    · simp only [hM, if_false, hpm]
      by_cases hU : 100000000 * A + F > maxAmount
      · simp only [hU, if_true, throw_bind]
        have : ¬ (A * 10 ^ 8 + F ≤ maxAmount) := by omega
        rw [if_neg this]; rfl
      · simp only [hU, if_false]
        have : (A * 10 ^ 8 + F ≤ maxAmount) := by omega
        rw [if_pos this]
        show some (100000000 * A + F) = _
        congr 1; omega
  · simp only [hA, if_false, error_bind]
    have : ¬ (A * 10 ^ 8 + F ≤ maxAmount) := by rw [hm]; rw [hi] at hA; omega
    rw [if_neg this]; rfl

theorem parseTail_precision {a x : Bytes} (hl : x.length > 8) : (parseTail a x).toOption = none := by
  unfold parseTail
  simp only [hl, if_true]; rfl

/-! ### the prefix checks -/

theorem parse_none_of_many_dots {s : Bytes} (h : 2 ≤ s.count dot) : (parse s).toOption = none := by
  rw [parse_eq, splitDot_length]
  have : s.count dot + 1 > 2 := by omega
  simp only [this, if_true]; rfl

theorem parse_none_of_bad_byte {s : Bytes} (h : s.all (fun b => isDigit b || b == dot) = false) :
    (parse s).toOption = none := by
  rw [parse_eq, splitDot_all_isDigit, h]
  by_cases h1 : (splitDot s).length > 2
  · simp only [h1, if_true]; rfl
  · simp only [h1, if_false]; rfl

theorem count_dot_pos {x : Bytes} (h1 : x.all (fun b => isDigit b || b == dot) = true)
    (h2 : x.all isDigit = false) : 1 ≤ x.count dot := by
  induction x with
  | nil => simp at h2
  | cons b bs ih =>
    simp only [List.all_cons, Bool.and_eq_true, Bool.or_eq_true, beq_iff_eq] at h1
    by_cases hb : b = dot
    · subst hb; simp
    · have hbd : isDigit b = true := by rcases h1.1 with h | h; exact h; exact absurd h hb
      simp only [List.all_cons, hbd, Bool.true_and] at h2
      have := ih h1.2 h2
      rw [List.count_cons_of_ne hb]; exact this

/-! ### model = spec -/

theorem parse_toOption (s : Bytes) : (parse s).toOption = Spec.Amount.parse s := by
  rcases Spec.Amount.digit_prefix_cases s with hs | ⟨ip, c, fp, e, hip, hc⟩
  · -- digits only
    rw [Spec.Amount.parse_digits hs, parse_eq, splitDot_of_all_isDigit hs]
    by_cases he : s = []
    · subst he; rfl
    · have hlen : ¬ s.length = 0 := by
        intro h; exact he (List.eq_nil_of_length_eq_zero h)
      have hemp : s.isEmpty = false := by simpa using he
      simp only [List.length_singleton, List.all_cons, List.all_nil, Bool.and_true, hs, Bool.not_true,
        List.map_cons, List.map_nil, List.sum_cons, List.sum_nil, Nat.add_zero, hlen, List.headD_cons,
        hemp, if_false, Bool.false_eq_true, gt_iff_lt, 
        (by decide : ¬ (1 > 2)), (by decide : ¬ (1 = 2))]
      rw [parseTail_toOption (normInt_ne_nil s) (normInt_all hs) (by rfl) (by simp), ofDigits_normInt,
        Spec.Amount.value_def]
      have hmax : maxAmount = Spec.Amount.maxAmount := rfl
      rw [trimRight0_nil, hmax, if_neg (by decide : ¬ ([] : Bytes).length > 8)]
  · subst e
    by_cases hd : c = dot
    · subst hd
      rw [Spec.Amount.parse_point hip]
      by_cases hfp : fp.all isDigit = true
      · -- ip.fp
        have hnd : ∀ b ∈ ip, b ≠ dot := fun b hb => ne_dot_of_isDigit (List.all_eq_true.mp hip b hb)
        rw [parse_eq, splitDot_append_dot hnd, splitDot_of_all_isDigit hfp]
        simp only [List.length_cons, List.length_nil, List.all_cons, List.all_nil, Bool.and_true, hip, hfp,
          Bool.and_self, Bool.not_true, Bool.false_eq_true, if_false, List.map_cons, List.map_nil,
          List.sum_cons, List.sum_nil, Nat.add_zero, List.headD_cons, Bool.true_and,
          (by decide : ¬ (0 + 1 + 1 > 2)), (by decide : (0 + 1 + 1 = 2)), if_true]
        have hg : [ip, fp].getD 1 [] = fp := rfl
        rw [hg]
        by_cases hz : ip.length + fp.length = 0
        · have h1 : ip = [] := List.eq_nil_of_length_eq_zero (by omega)
          have h2 : fp = [] := List.eq_nil_of_length_eq_zero (by omega)
          subst h1; subst h2; rfl
        · have hemp : (ip.isEmpty && fp.isEmpty) = false := by
            cases ip with
            | nil => cases fp with
              | nil => simp at hz
              | cons _ _ => rfl
            | cons _ _ => rfl
          simp only [hz, if_false, hemp, Bool.not_false, if_true]
          rw [Spec.Amount.value_def]
          by_cases hl : (trimRight0 fp).length > 8
          · rw [parseTail_precision hl, if_pos hl]
          · rw [parseTail_toOption (normInt_ne_nil ip) (normInt_all hip) (trimRight0_all hfp) (by omega),
              ofDigits_normInt, if_neg hl]
            have hmax : maxAmount = Spec.Amount.maxAmount := rfl
            rw [hmax]
      · -- a non-digit after the point
        have hfp' : fp.all isDigit = false := by simpa using hfp
        rw [hfp']
        simp only [Bool.false_and, Bool.false_eq_true, if_false]
        by_cases hall : (ip ++ dot :: fp).all (fun b => isDigit b || b == dot) = true
        · apply parse_none_of_many_dots
          have h1 : fp.all (fun b => isDigit b || b == dot) = true := by
            rw [List.all_append, List.all_cons, Bool.and_eq_true, Bool.and_eq_true] at hall
            exact hall.2.2
          have := count_dot_pos h1 hfp'
          rw [List.count_append, List.count_cons_self]; omega
        · exact parse_none_of_bad_byte (by simpa using hall)
    · rw [Spec.Amount.parse_other hip hc hd]
      apply parse_none_of_bad_byte
      have hcd : (c == dot) = false := by simpa using hd
      rw [List.all_append, List.all_cons, hc, hcd]
      simp

end MW.Model.Amount
