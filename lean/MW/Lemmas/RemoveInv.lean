/-
  C08, `remove ⊨ project`, part 5 — the store-level proof.
    `Mid c w addrs own' s chain`  the invariant of a removal in progress: every mined bucket of `s` lies between
        the books of the chain for the full keystore view (`B`) and the books for the view without `w` (`B'`):
        what belongs to another wallet is there, what is missing belongs to `w`, and every leftover of `w` can
        still be found from a credit of `w` that is left.
    `inv_to_mid`   `Inv c s chain` (C01's invariant) gives `Mid`
    `mid_step`     EVERY RemoveRelevantTx (finishing or not) preserves `Mid`
    `mid_done`     after a step that reports `finish`, no credit of `w` is left
-/
import MW.Lemmas.RemoveBooks2
import MW.Lemmas.LedgerInv
namespace MW.Lemmas.RemoveInv
open MW MW.Model.Ledger MW.Model.Remove MW.Spec.Chain MW.Spec.Books MW.Lemmas.Ledger MW.Lemmas.RemoveProj
  MW.Lemmas.RemoveChar MW.Lemmas.RemoveBooks MW.Lemmas.RemoveScan MW.Lemmas.RemoveStep MW.Lemmas.RemoveFrame

/-- the standing hypotheses: `own'` is the keystore view without `w`, `addrs` are exactly the script hashes `w`
    manages, the chain is valid, positions are heights, its blocks are in the block files -/
structure RemHyp (c : Ctx) (w : Wid) (addrs : List Addr) (own' : Own) (chain : List Block) : Prop where
  minus : OwnMinus c.own own' w
  managed : ∀ a, addrs.contains a = isW c.own w a
  ne : addrs ≠ []
  valid : ChainValid c.own chain
  heights : HeightsOK chain
  known : ∀ x ∈ chain, AMap.get c.node.known x.id = some x

structure Mid (c : Ctx) (w : Wid) (addrs : List Addr) (own' : Own) (s : Store) (chain : List Block) : Prop where
  nodup : KeysNodup s.credits
  credits : ∀ k, AMap.get s.credits k = (bookOf c.p c.own chain).credits k ∨
    (AMap.get s.credits k = none ∧ ∃ cr, (bookOf c.p c.own chain).credits k = some cr ∧ isW c.own w cr.sh = true)
  debits : ∀ dk, AMap.get s.debits dk = (bookOf c.p c.own chain).debits dk ∨
    (AMap.get s.debits dk = none ∧ ∃ d cr, (bookOf c.p c.own chain).debits dk = some d ∧
      (bookOf c.p c.own chain).credits d.2 = some cr ∧ isW c.own w cr.sh = true)
  /-- a debit of one of `w`'s credits is only there while the credit is -/
  debitsW : ∀ dk d cr, AMap.get s.debits dk = some d → (bookOf c.p c.own chain).credits d.2 = some cr →
    isW c.own w cr.sh = true → AMap.get s.credits d.2 = some cr
  unspent : ∀ w' tx idx, AMap.get s.unspent (w', tx, idx) =
    ((lookupU (bookOf c.p c.own chain).L tx idx).filter (fun u => decide (u.wallet = w'))).map (·.blk)
  game : ∀ k, AMap.get s.game k = (bookOf c.p c.own chain).game k
  txrecs : ∀ k, AMap.get s.txrecs k = (bookOf c.p c.own chain).txrecs k ∨
    (AMap.get s.txrecs k = none ∧ (bookOf c.p own' chain).txrecs k = none)
  /-- a tx record no other wallet needs is only there while a credit of `w` leads to it: one of its own outputs,
      or one it spends -/
  txrecsW : ∀ k loc, AMap.get s.txrecs k = some loc → (bookOf c.p own' chain).txrecs k = none →
    ∃ ck cr, AMap.get s.credits ck = some cr ∧ isW c.own w cr.sh = true ∧
      ((ck.tx = k.1 ∧ ck.blk.height = k.2.height) ∨
        ∃ dk, spKey cr = some dk ∧ dk.tx = k.1 ∧ dk.blk.height = k.2.height)
  blocks : ∀ h, AMap.get s.blocks h = blockRecOf (fun k => (AMap.get s.txrecs k).isSome) chain h
  bal : ∀ w', (readyWallets s c.wallets).contains w' = true →
    AMap.get s.balance w' = some (totalU (bookOf c.p c.own chain).L w')
  sync : ∀ h, AMap.get s.sync h = syncOf chain h
  syncedTo : s.syncedTo + 1 = chain.length
  /-- no unmined credit belongs to a transaction of the chain -/
  pendOff : ∀ e ∈ s.pendCred, e.1.1 ∉ idsOf (occs chain)

section
variable {c : Ctx} {w : Wid} {addrs : List Addr} {own' : Own} {chain : List Block}

-- ------------------------------------------------------------------ removable, read on the books

/-- a transaction of the chain is valid after the ones before it; its inputs name transactions of the chain -/
theorem occ_split (hV : ChainValid c.own chain) {oc : Occ} (hoc : oc ∈ occs chain) :
    ∃ P₁ P₂, occs chain = P₁ ++ oc :: P₂ ∧ OccValid c.own P₁ oc := by
  obtain ⟨P₁, P₂, hs⟩ := List.append_of_mem hoc
  refine ⟨P₁, P₂, hs, ?_⟩
  have hV' : ValidFrom c.own [] (occs chain) := hV
  rw [hs] at hV'
  have := (validFrom_append.1 hV').2
  simp only [List.nil_append] at this
  exact this.1

theorem ins_ids (hV : ChainValid c.own chain) {oc : Occ} (hoc : oc ∈ occs chain) (hcb : oc.t.cb = false)
    {i : Inp} (hi : i ∈ oc.t.ins) : i.tx ∈ idsOf (occs chain) := by
  obtain ⟨P₁, P₂, hs, hval⟩ := occ_split hV hoc
  have := srcOut_isSome_mem (hval.2.1 hcb i hi)
  rw [hs, idsOf_append]
  exact List.mem_append_left _ this

/-- (MW.Props.C08.needed_not_removable, repeated here: lemma files do not import property files) -/
theorem needed_not_removable' (own : Own) (s : Store) (addrs : List Addr) (tx : Tx)
    (h : (∃ o ∈ tx.outs, o.cls ≠ .raw ∧ addrs.contains o.addr = false ∧ (AMap.get own o.addr).isSome = true) ∨
         (tx.cb = false ∧ ∃ i ∈ tx.ins,
            (∃ e ∈ s.credits, e.1.tx = i.tx ∧ e.1.idx = i.idx ∧ addrs.contains e.2.sh = false) ∨
            (∃ cr, AMap.get s.pendCred (i.tx, i.idx) = some cr ∧ addrs.contains cr.sh = false))) :
    removable own s addrs tx = false := by
  unfold removable spendsCreditOfOtherWallet
  simp only [Bool.and_eq_false_iff, Bool.not_eq_false', List.any_eq_true, Bool.and_eq_true, bne_iff_ne, ne_eq,
    Bool.not_eq_true', Bool.or_eq_true, decide_eq_true_eq]
  rcases h with ⟨o, ho, hraw, hna, hown⟩ | ⟨hcb, i, hi, hor⟩
  · exact Or.inl ⟨o, ho, ⟨hraw, hna⟩, hown⟩
  · refine Or.inr ⟨hcb, i, hi, ?_⟩
    rcases hor with ⟨e, he, h1, h2, h3⟩ | ⟨cr, hg, hn⟩
    · exact Or.inl ⟨e, he, ⟨h1, h2⟩, h3⟩
    · right; rw [hg]; simpa using hn

/-- needed by another wallet ⇒ not removable, on any store that has the other wallets' credits -/
theorem not_removable_of_needed (H : RemHyp c w addrs own' chain) {s : Store} {t : Tx}
    (hcr : ∀ ck cr, (bookOf c.p c.own chain).credits ck = some cr → isW c.own w cr.sh = false →
      AMap.get s.credits ck = some cr)
    (hN : NeededBy c.own own' w (bookOf c.p c.own chain) t) : removable c.own s addrs t = false := by
  apply needed_not_removable'
  rcases hN with ⟨o, ho, hoo⟩ | ⟨hcb, i, hi, ck, cr, hck, htx, hidx, hw⟩
  · left
    obtain ⟨x, hx⟩ := Option.isSome_iff_exists.1 hoo
    obtain ⟨hx1, hx2⟩ := (ownerOf_minus_some H.minus).1 hx
    have hraw : o.cls ≠ .raw := by
      intro hr; unfold ownerOf at hx1; simp [hr] at hx1
    have hget : AMap.get c.own o.addr = some x := by
      unfold ownerOf at hx1; simpa [hraw] using hx1
    refine ⟨o, ho, hraw, ?_, by rw [hget]; rfl⟩
    rw [H.managed, isW_of_owner hx1]
    simpa using hx2
  · right
    refine ⟨hcb, i, hi, Or.inl ⟨(ck, cr), get_mem (hcr ck cr hck hw), htx, hidx, ?_⟩⟩
    rw [H.managed]; exact hw

/-- not needed by another wallet ⇒ removable, on any store whose other-wallet credits are credits of the books
    and that has no unmined credit at the inputs -/
theorem removable_of_not_needed (H : RemHyp c w addrs own' chain) {s : Store} {t : Tx}
    (hcr : ∀ e ∈ s.credits, addrs.contains e.2.sh = false → (bookOf c.p c.own chain).credits e.1 = some e.2)
    (hpend : t.cb = false → ∀ i ∈ t.ins, AMap.get s.pendCred (i.tx, i.idx) = none)
    (hN : ¬ NeededBy c.own own' w (bookOf c.p c.own chain) t) : removable c.own s addrs t = true := by
  cases hr : removable c.own s addrs t with
  | true => rfl
  | false =>
    exfalso
    apply hN
    unfold removable spendsCreditOfOtherWallet at hr
    simp only [Bool.and_eq_false_iff, Bool.not_eq_false', List.any_eq_true, Bool.and_eq_true, bne_iff_ne, ne_eq,
      Bool.not_eq_true', Bool.or_eq_true, decide_eq_true_eq] at hr
    rcases hr with ⟨o, ho, ⟨hraw, hna⟩, hown⟩ | ⟨hcb, i, hi, hor⟩
    · left
      obtain ⟨x, hx⟩ := Option.isSome_iff_exists.1 hown
      have hx1 : ownerOf c.own o = some x := by unfold ownerOf; simp [hraw, hx]
      refine ⟨o, ho, ?_⟩
      have hw : x.1 ≠ w := by
        rw [H.managed, isW_of_owner hx1] at hna
        simpa using hna
      rw [(ownerOf_minus_some H.minus).2 ⟨hx1, hw⟩]; rfl
    · right
      refine ⟨hcb, i, hi, ?_⟩
      rcases hor with ⟨e, he, ⟨h1, h2⟩, h3⟩ | hpc
      · exact ⟨e.1, e.2, hcr e he h3, h1, h2, by rw [← H.managed]; exact h3⟩
      · rw [hpend hcb i hi] at hpc; cases hpc

-- ------------------------------------------------------------------ Inv ⇒ Mid

theorem inv_to_mid (H : RemHyp c w addrs own' chain) {s : Store} (hI : Inv c s chain)
    (hn : KeysNodup s.credits) (hp : ∀ e ∈ s.pendCred, e.1.1 ∉ idsOf (occs chain)) :
    Mid c w addrs own' s chain := by
  have hA := hI.agree
  have hBM := bookOf_minus H.minus c.p H.valid
  have hC := credInv_bookOf (p := c.p) H.valid
  refine ⟨hn, fun k => Or.inl (hA.credits k), fun dk => Or.inl (hA.debits dk), ?_, hA.unspent, hA.game,
    fun k => Or.inl (hA.txrecs k), ?_, ?_, hI.bal, hI.sync, hI.syncedTo, hp⟩
  · intro dk d cr _ hcr _
    rw [hA.credits]; exact hcr
  · intro k loc hg hB'
    rw [hA.txrecs] at hg
    obtain ⟨P₁, oc, P₂, hs, ht, hk, hl⟩ := txrec_occ H.valid hg
    have hoc : oc ∈ occs chain := by rw [hs]; simp
    have hnN : ¬ NeededBy c.own own' w (bookOf c.p c.own chain) oc.t := by
      intro hN
      have := (hBM.txrecs k loc).2 ⟨hg, oc, hoc, hk, hN⟩
      rw [hB'] at this; cases this
    have hV1 : ValidFrom c.own [] P₁ := by
      have hV' : ValidFrom c.own [] (occs chain) := H.valid
      rw [hs] at hV'
      exact (validFrom_append.1 hV').1
    have hG1 : Glob c.own P₁ (P₁.foldl (applyOcc c.p c.own) {}) := by
      simpa using glob_fold (p := c.p) (glob_nil c.own) hV1
    unfold touches at ht
    simp only [Bool.or_eq_true, Bool.and_eq_true, Bool.not_eq_true', List.any_eq_true] at ht
    rcases ht with ⟨hcb, i, hi, hl'⟩ | ⟨o, ho, hoo⟩
    · obtain ⟨u, hu⟩ := Option.isSome_iff_exists.1 hl'
      obtain ⟨hm, hut, hui⟩ := lookupU_some hu
      have hc1 : CreatedIn c.own P₁ u := ((hG1.mem u).1 hm).1
      have hcP : CreatedIn c.own (occs chain) u := by rw [hs]; exact createdIn_mono hc1
      obtain ⟨kidx, hkidx⟩ := List.getElem?_of_mem hi
      have hsp : SpentBy (occs chain) (u.tx, u.idx) ⟨oc.t.id, oc.bm, kidx⟩ :=
        ⟨oc, hoc, hcb, kidx, i, hkidx, by unfold opOf; rw [hut, hui], rfl⟩
      have hcr := hC.spent u _ hcP hsp
      have hW : isW c.own w u.out.addr = true := by
        cases hw : isW c.own w u.out.addr with
        | true => rfl
        | false => exact absurd (Or.inr ⟨hcb, i, hi, u.credKey, _, hcr, hut, hui, hw⟩) hnN
      refine ⟨u.credKey, _, by rw [hA.credits]; exact hcr, hW, Or.inr ⟨⟨oc.t.id, oc.bm, kidx⟩, by simp [spKey], ?_, ?_⟩⟩
      · rw [hk]
      · rw [hk]
    · obtain ⟨x, hx⟩ := Option.isSome_iff_exists.1 hoo
      obtain ⟨j, hj⟩ := List.getElem?_of_mem ho
      have hcP : CreatedIn c.own (occs chain) ⟨x.1, oc.t.id, j, oc.bm, oc.t.cb, o, x.2⟩ :=
        ⟨oc, hoc, rfl, hj, hx, rfl, rfl⟩
      obtain ⟨cr, hcr, hsh⟩ := credit_sh_of_created hC hcP
      have hW : isW c.own w cr.sh = true := by
        rw [hsh]
        show isW c.own w o.addr = true
        rw [isW_of_owner hx]
        by_cases hxw : x.1 = w
        · simpa using hxw
        · exfalso
          apply hnN
          exact Or.inl ⟨o, ho, by rw [(ownerOf_minus_some H.minus).2 ⟨hx, hxw⟩]; rfl⟩
      refine ⟨_, cr, by rw [hA.credits]; exact hcr, hW, Or.inl ⟨?_, ?_⟩⟩
      · rw [hk]; rfl
      · rw [hk]; rfl
  · intro h
    rw [hA.blocks, blocks_eq_blockRecOf c.p c.own chain H.valid H.heights h]
    exact blockRecOf_congr chain h (fun k => by rw [hA.txrecs])

-- ------------------------------------------------------------------ the credits bucket keeps distinct keys

theorem scan_nodup (limit : Nat) (addrs : List Addr) (l : List (CredKey × Credit)) (sc : Scan)
    (h : KeysNodup sc.s.credits) : KeysNodup (l.foldl (scanCredit limit addrs) sc).s.credits := by
  induction l generalizing sc with
  | nil => exact h
  | cons e l ih =>
    apply ih
    rcases scanCredit_sharp limit addrs sc e with ⟨_, h'⟩ | ⟨_, _, h'⟩ | ⟨_, _, _, h', _⟩ | ⟨_, _, h'⟩
    · rw [h']; exact h
    · rw [h']; exact h
    · rw [h']; exact h
    · rw [h']
      show KeysNodup (dropDebit (deleteCredit sc.s e.1) (spKey e.2)).credits
      rw [dropDebit_credits]
      exact keysNodup_erase h _

theorem rrt_nodup (limit : Nat) (c : Ctx) (s : Store) (addrs : List Addr) (o : StepOut) (hne : addrs ≠ [])
    (h : removeRelevantTx limit c s addrs = some o) (hn : KeysNodup s.credits) : KeysNodup o.s.credits := by
  obtain ⟨s1, h1, h2, _, _⟩ := (removeRelevantTx_spec limit c s addrs o hne h).credits
  have e1 : s1.credits = s.credits := congrArg Prod.fst h1
  have e2 : o.s.credits = (removeRelevantCredit limit s1 addrs).s.credits := congrArg Prod.fst h2
  rw [e2]
  unfold removeRelevantCredit
  exact scan_nodup limit addrs _ _ (by rw [e1]; exact hn)

-- ------------------------------------------------------------------ one RemoveRelevantTx preserves Mid

theorem mem_keys_iff {K V : Type} (l : List (K × V)) (k : K) : k ∈ l.map (·.1) ↔ ∃ e ∈ l, e.1 = k := by
  simp only [List.mem_map]

/-- two blocks of a chain whose positions are heights, at the same height, are the same block -/
theorem block_at_height (hH : HeightsOK chain) {b b' : Block} {h : Nat} (hb : chain[h]? = some b)
    (hb' : b' ∈ chain) (hh : b'.height = h) : b' = b := by
  obtain ⟨i, hi⟩ := List.getElem?_of_mem hb'
  have := hH i b' hi
  rw [hh] at this
  rw [← this, hb] at hi
  exact (Option.some.inj hi).symm

theorem mid_step (limit : Nat) (H : RemHyp c w addrs own' chain) {s : Store} (hM : Mid c w addrs own' s chain)
    {o : StepOut} (h : removeRelevantTx limit c s addrs = some o) :
    Mid c w addrs own' o.s chain ∧
      (o.finish = true → ∀ k cr, AMap.get o.s.credits k = some cr → isW c.own w cr.sh = false) := by
  obtain ⟨DEL, HOF, ERA, hR⟩ := rrt_char limit c s addrs o H.ne h
  have hn' := rrt_nodup limit c s addrs o H.ne h hM.nodup
  have hBM := bookOf_minus H.minus c.p H.valid
  have hcore := hR.core
  simp only [core, Prod.mk.injEq] at hcore
  obtain ⟨hu, ha, hg, hpg, hb, hst, hsy, hsyt⟩ := hcore
  -- the deleted credits are credits of `w` in the books
  have hDEL : ∀ e ∈ DEL, AMap.get s.credits e.1 = some e.2 ∧
      (bookOf c.p c.own chain).credits e.1 = some e.2 ∧ isW c.own w e.2.sh = true := by
    intro e he
    obtain ⟨hm, hc⟩ := hR.sub e he
    have hge : AMap.get s.credits e.1 = some e.2 := (mem_iff_get_of_nodup hM.nodup e.1 e.2).1 hm
    refine ⟨hge, ?_, by rw [← H.managed]; exact hc⟩
    rcases hM.credits e.1 with h1 | ⟨h1, _⟩
    · rw [← h1]; exact hge
    · rw [hge] at h1; cases h1
  -- the other wallets' credits are all still there …
  have hcrO : ∀ ck cr, (bookOf c.p c.own chain).credits ck = some cr → isW c.own w cr.sh = false →
      AMap.get o.s.credits ck = some cr := by
    intro ck cr hck hw
    rw [hR.credits]
    have hnd : ck ∉ DEL.map (·.1) := by
      intro hd
      obtain ⟨e, he, hek⟩ := (mem_keys_iff DEL ck).1 hd
      have := (hDEL e he).2
      rw [hek, hck] at this
      have h2 := this.2
      rw [← Option.some.inj this.1, hw] at h2; cases h2
    rw [if_neg hnd]
    rcases hM.credits ck with h1 | ⟨_, cr', h2, h3⟩
    · rw [h1]; exact hck
    · rw [hck] at h2
      rw [← Option.some.inj h2, hw] at h3; cases h3
  -- … and what is left of other script hashes is a credit of the books
  have hcrO' : ∀ e ∈ o.s.credits, addrs.contains e.2.sh = false →
      (bookOf c.p c.own chain).credits e.1 = some e.2 := by
    intro e he _
    have hge : AMap.get o.s.credits e.1 = some e.2 := (mem_iff_get_of_nodup hn' e.1 e.2).1 he
    rw [hR.credits] at hge
    by_cases hd : e.1 ∈ DEL.map (·.1)
    · rw [if_pos hd] at hge; cases hge
    · rw [if_neg hd] at hge
      rcases hM.credits e.1 with h1 | ⟨h1, _⟩
      · rw [← h1]; exact hge
      · rw [hge] at h1; cases h1
  have hpendO : ∀ oc ∈ occs chain, oc.t.cb = false → ∀ i ∈ oc.t.ins, AMap.get o.s.pendCred (i.tx, i.idx) = none := by
    intro oc hoc hcb i hi
    cases hgp : AMap.get o.s.pendCred (i.tx, i.idx) with
    | none => rfl
    | some cc =>
      exfalso
      have hm := get_mem hgp
      rw [hR.pendCred] at hm
      exact hM.pendOff _ (List.mem_filter.1 hm).1 (ins_ids H.valid hoc hcb hi)
  -- visible tx records of `s` are tx records of the books
  have htxB : ∀ k loc, AMap.get s.txrecs k = some loc → (bookOf c.p c.own chain).txrecs k = some loc := by
    intro k loc hk
    rcases hM.txrecs k with h1 | ⟨h1, _⟩
    · rw [← h1]; exact hk
    · rw [hk] at h1; cases h1
  have hU : TxrecU s.txrecs := by
    intro k k' hk hk' hid _
    obtain ⟨l, hl⟩ := Option.isSome_iff_exists.1 hk
    obtain ⟨l', hl'⟩ := Option.isSome_iff_exists.1 hk'
    exact txrec_key_unique (p := c.p) H.valid (by rw [htxB k l hl]; rfl) (by rw [htxB k' l' hl']; rfl) hid
  -- a tx record of the books, its transaction, its location
  have hrec : ∀ k loc, (bookOf c.p c.own chain).txrecs k = some loc → ∃ oc ∈ occs chain, k = (oc.t.id, oc.bm) ∧
      c.node.txByFileLoc loc = some oc.t := by
    intro k loc hk
    obtain ⟨P₁, oc, P₂, hs, _, hkk, hl⟩ := txrec_occ H.valid hk
    have hoc : oc ∈ occs chain := by rw [hs]; simp
    exact ⟨oc, hoc, hkk, by rw [hl]; exact txByFileLoc_of_occ H.known hoc⟩
  have hnotNeeded : ∀ k loc oc, (bookOf c.p c.own chain).txrecs k = some loc → (bookOf c.p own' chain).txrecs k = none →
      oc ∈ occs chain → k = (oc.t.id, oc.bm) → ¬ NeededBy c.own own' w (bookOf c.p c.own chain) oc.t := by
    intro k loc oc hk hk' hoc hkk hN
    have := (hBM.txrecs k loc).2 ⟨hk, oc, hoc, hkk, hN⟩
    rw [hk'] at this; cases this
  -- the examined pairs are (transaction of the chain, its height)
  have hHOF : ∀ x ∈ HOF, ∃ oc ∈ occs chain, oc.t.id = x.1 ∧ oc.bm.height = x.2 := by
    intro x hx
    obtain ⟨e, he, hor⟩ := hR.hofBack x hx
    rcases hor with rfl | ⟨dk, hdk, rfl⟩
    · obtain ⟨oc, hoc, h1, h2⟩ := credit_occ H.valid (hDEL e he).2.1
      exact ⟨oc, hoc, h1, by rw [h2]⟩
    · obtain ⟨_, oc, hoc, h1, h2⟩ := spKey_debit H.valid (hDEL e he).2.1 hdk
      exact ⟨oc, hoc, h1, by rw [h2]⟩
  have hERA : ∀ k ∈ ERA, ∃ loc, (bookOf c.p c.own chain).txrecs k = some loc := by
    intro k hk
    obtain ⟨_, _, loc, _, hgl, _, _⟩ := hR.sound k hk
    exact ⟨loc, htxB k loc hgl⟩
  refine ⟨⟨hn', ?_, ?_, ?_, ?_, ?_, ?_, ?_, ?_, ?_, ?_, ?_, ?_⟩, ?_⟩
  · -- credits
    intro k
    rw [hR.credits]
    by_cases hk : k ∈ DEL.map (·.1)
    · obtain ⟨e, he, hek⟩ := (mem_keys_iff DEL k).1 hk
      rw [if_pos hk]
      exact Or.inr ⟨rfl, e.2, by rw [← hek]; exact (hDEL e he).2.1, (hDEL e he).2.2⟩
    · rw [if_neg hk]; exact hM.credits k
  · -- debits
    intro dk
    rw [hR.debits]
    by_cases hk : dk ∈ DEL.filterMap (fun e => spKey e.2)
    · obtain ⟨e, he, hsp⟩ := List.mem_filterMap.1 hk
      obtain ⟨⟨amt, hd⟩, _⟩ := spKey_debit H.valid (hDEL e he).2.1 hsp
      rw [if_pos hk]
      exact Or.inr ⟨rfl, (amt, e.1), e.2, hd, (hDEL e he).2.1, (hDEL e he).2.2⟩
    · rw [if_neg hk]; exact hM.debits dk
  · -- debitsW
    intro dk d cr hgd hcr hw
    rw [hR.debits] at hgd
    by_cases hk : dk ∈ DEL.filterMap (fun e => spKey e.2)
    · rw [if_pos hk] at hgd; cases hgd
    · rw [if_neg hk] at hgd
      have hgc := hM.debitsW dk d cr hgd hcr hw
      rw [hR.credits]
      by_cases hd : d.2 ∈ DEL.map (·.1)
      · exfalso
        obtain ⟨e, he, hek⟩ := (mem_keys_iff DEL d.2).1 hd
        have he2 : e.2 = cr := by
          have := (hDEL e he).1
          rw [hek, hgc] at this
          exact (Option.some.inj this).symm
        have hBd : (bookOf c.p c.own chain).debits dk = some d := by
          rcases hM.debits dk with h1 | ⟨h1, _⟩
          · rw [← h1]; exact hgd
          · rw [hgd] at h1; cases h1
        obtain ⟨cr', hcr', hsp'⟩ := debit_credit H.valid hBd
        rw [hcr] at hcr'
        rw [← Option.some.inj hcr', ← he2] at hsp'
        exact hk (List.mem_filterMap.2 ⟨e, he, hsp'⟩)
      · rw [if_neg hd]; exact hgc
  · intro w' tx idx; rw [hu]; exact hM.unspent w' tx idx
  · intro k; rw [hg]; exact hM.game k
  · -- txrecs
    intro k
    rw [hR.txrecs]
    by_cases hk : k ∈ ERA
    · rw [if_pos hk]
      refine Or.inr ⟨rfl, ?_⟩
      obtain ⟨_, _, loc, tx, hgl, hloc, hrem⟩ := hR.sound k hk
      cases hB' : (bookOf c.p own' chain).txrecs k with
      | none => rfl
      | some loc' =>
        exfalso
        obtain ⟨hB, oc, hoc, hkk, hN⟩ := (hBM.txrecs k loc').1 hB'
        have hBl := htxB k loc hgl
        obtain ⟨oc1, hoc1, hkk1, hloc1⟩ := hrec k loc hBl
        have : oc = oc1 := occ_eq_of_id (idsNodup H.valid) hoc hoc1 (by
          have := hkk.symm.trans hkk1
          exact congrArg Prod.fst this)
        subst this
        rw [hloc] at hloc1
        rw [Option.some.inj hloc1, not_removable_of_needed H hcrO hN] at hrem
        cases hrem
    · rw [if_neg hk]; exact hM.txrecs k
  · -- txrecsW
    intro k loc hgk hB'
    rw [hR.txrecs] at hgk
    by_cases hk : k ∈ ERA
    · rw [if_pos hk] at hgk; cases hgk
    · rw [if_neg hk] at hgk
      obtain ⟨ck, cr, hgc, hw, halt⟩ := hM.txrecsW k loc hgk hB'
      by_cases hd : ck ∈ DEL.map (·.1)
      · by_cases hnu : inUse o.s k = false
        case neg =>
          -- D45 repair: the record stays because a credit or a debit under its key is left: that one leads to it
          have hiu : inUse o.s k = true := by cases h' : inUse o.s k with | true => rfl | false => exact absurd h' hnu
          unfold inUse at hiu
          simp only [Bool.or_eq_true, List.any_eq_true, Bool.and_eq_true, decide_eq_true_eq] at hiu
          have hV' : ChainValid own' chain := chainValid_minus H.minus H.valid
          rcases hiu with ⟨e, he, he1, he2⟩ | ⟨e, he, he1, he2⟩
          · have hge : AMap.get o.s.credits e.1 = some e.2 := (mem_iff_get_of_nodup hn' e.1 e.2).1 he
            cases hc : addrs.contains e.2.sh with
            | true => exact ⟨e.1, e.2, hge, by rw [← H.managed]; exact hc, Or.inl ⟨he1, by rw [he2]⟩⟩
            | false =>
              exfalso
              have hUc := hcrO' e he hc
              have hB'c : (bookOf c.p own' chain).credits e.1 = some e.2 :=
                (hBM.credits e.1 e.2).2 ⟨hUc, by rw [← H.managed]; exact hc⟩
              obtain ⟨loc', hl'⟩ := credit_txrec hV' hB'c
              have hkk : (e.1.tx, e.1.blk) = k := by rw [he1, he2]
              rw [hkk, hB'] at hl'; cases hl'
          · obtain ⟨d', hd'⟩ := Option.isSome_iff_exists.1 (mem_get_isSome he)
            have hgs : AMap.get s.debits e.1 = some d' := by
              have hd'' := hd'
              rw [hR.debits] at hd''
              by_cases hx : e.1 ∈ DEL.filterMap (fun e => spKey e.2)
              · rw [if_pos hx] at hd''; cases hd''
              · rw [if_neg hx] at hd''; exact hd''
            have hUd : (bookOf c.p c.own chain).debits e.1 = some d' := by
              rcases hM.debits e.1 with h1 | ⟨h1, _⟩
              · rw [← h1]; exact hgs
              · rw [hgs] at h1; cases h1
            obtain ⟨cr', hcr', hsp'⟩ := debit_credit H.valid hUd
            cases hw' : isW c.own w cr'.sh with
            | true =>
              have hgc' := hM.debitsW e.1 d' cr' hgs hcr' hw'
              refine ⟨d'.2, cr', ?_, hw', Or.inr ⟨e.1, hsp', he1, by rw [he2]⟩⟩
              rw [hR.credits]
              by_cases hx : d'.2 ∈ DEL.map (·.1)
              · exfalso
                obtain ⟨e0, he0, hek0⟩ := (mem_keys_iff DEL d'.2).1 hx
                have he02 : e0.2 = cr' := by
                  have := (hDEL e0 he0).1
                  rw [hek0, hgc'] at this
                  exact (Option.some.inj this).symm
                have hmem : e.1 ∈ DEL.filterMap (fun e => spKey e.2) :=
                  List.mem_filterMap.2 ⟨e0, he0, by rw [he02]; exact hsp'⟩
                rw [hR.debits, if_pos hmem] at hd'; cases hd'
              · rw [if_neg hx]; exact hgc'
            | false =>
              exfalso
              have hB'd : (bookOf c.p own' chain).debits e.1 = some d' :=
                (hBM.debits e.1 d').2 ⟨hUd, cr', hcr', hw'⟩
              obtain ⟨loc', hl'⟩ := debit_txrec hV' hB'd
              have hkk : (e.1.tx, e.1.blk) = k := by rw [he1, he2]
              rw [hkk, hB'] at hl'; cases hl'
        exfalso
        apply hk
        obtain ⟨e, he, hek⟩ := (mem_keys_iff DEL ck).1 hd
        have he2 : e.2 = cr := by
          have := (hDEL e he).1
          rw [hek, hgc] at this
          exact (Option.some.inj this).symm
        have hBl := htxB k loc hgk
        obtain ⟨oc1, hoc1, hkk1, hloc1⟩ := hrec k loc hBl
        -- the pair examined for this record
        have hx : ∃ x ∈ HOF, x.1 = k.1 ∧ x.2 = k.2.height := by
          have key : ∀ id, id = k.1 → ∀ h', (id, h') ∈ HOF → ∃ x ∈ HOF, x.1 = k.1 ∧ x.2 = k.2.height := by
            intro id hid h' hm
            obtain ⟨oc, hoc, h1, h2⟩ := hHOF _ hm
            have : oc = oc1 := occ_eq_of_id (idsNodup H.valid) hoc hoc1 (by
              rw [h1]; show id = oc1.t.id; rw [hid, hkk1])
            refine ⟨_, hm, hid, ?_⟩
            show h' = k.2.height
            have h2' : oc.bm.height = h' := h2
            rw [← h2', this, hkk1]
          rcases halt with ⟨h1, _⟩ | ⟨dk, hdk, h1, _⟩
          · obtain ⟨h', hm⟩ := hR.hofTx e he
            exact key e.1.tx (by rw [hek]; exact h1) h' hm
          · obtain ⟨h', hm⟩ := hR.hofSp e he dk (by rw [he2]; exact hdk)
            exact key dk.tx h1 h' hm
        obtain ⟨x, hxm, hx1, hx2⟩ := hx
        refine hR.complete hU x hxm k loc oc1.t hx1.symm hx2.symm hgk hloc1 ?_ hnu
        exact removable_of_not_needed H hcrO' (fun hcb => hpendO oc1 hoc1 hcb)
          (hnotNeeded k loc oc1 hBl hB' hoc1 hkk1)
      · exact ⟨ck, cr, by rw [hR.credits, if_neg hd]; exact hgc, hw, halt⟩
  · -- blocks
    intro h'
    rw [hR.blocks h', hM.blocks h']
    have hhas : ∀ k, (AMap.get o.s.txrecs k).isSome =
        ((AMap.get s.txrecs k).isSome && !(ERA.contains k)) := by
      intro k
      rw [hR.txrecs]
      by_cases hk : k ∈ ERA
      · rw [if_pos hk]; simp [hk]
      · rw [if_neg hk]; simp [hk]
    rw [blockRecOf_congr (has' := fun k => (AMap.get s.txrecs k).isSome && !(ERA.contains k)) chain h' hhas]
    unfold blockRecOf
    cases hb' : chain[h']? with
    | none => simp [trimRec]
    | some b =>
      have hbh : b.height = h' := H.heights h' b hb'
      have hbm : ∀ oc ∈ occsOfBlock b, oc.bm = ⟨b.height, b.id⟩ := fun oc hoc => mem_occsFrom_bm hoc
      simp only
      rw [recIdsP_filter _ (fun k => !(ERA.contains k)) ⟨b.height, b.id⟩ _ hbm]
      -- erased keys at this height carry this block's hash
      have hhash : ∀ k ∈ ERA, k.2.height = h' → k.2.hash = b.id := by
        intro k hk hkh
        obtain ⟨loc, hl⟩ := hERA k hk
        obtain ⟨oc, hoc, hkk, _⟩ := hrec k loc hl
        obtain ⟨b1, hb1, hbm1⟩ := mem_occs_height hoc
        have hk2 : k.2 = ⟨b1.height, b1.id⟩ := by rw [hkk]; exact hbm1
        have : b1 = b := block_at_height H.heights hb' hb1 (by rw [← hkh, hk2])
        rw [hk2, this]
      have hpred : ∀ t, (!(ERA.map (fun k => (k.2.height, k.1))).contains (h', t)) =
          !(ERA.contains (t, (⟨b.height, b.id⟩ : BlockMeta))) := by
        intro t
        congr 1
        rw [Bool.eq_iff_iff]
        simp only [List.contains_eq_mem, List.mem_map, decide_eq_true_eq, Prod.mk.injEq]
        constructor
        · rintro ⟨k, hk, hkh, hkt⟩
          have := hhash k hk hkh
          have hk' : k = (t, (⟨b.height, b.id⟩ : BlockMeta)) := by
            obtain ⟨k1, k2h, k2x⟩ := k
            simp only at hkh hkt this
            rw [hkt, hkh, this, hbh]
          rw [← hk']; exact hk
        · intro hk
          exact ⟨_, hk, hbh, rfl⟩
      generalize hids : recIdsP (fun k => (AMap.get s.txrecs k).isSome) (occsOfBlock b) = ids
      cases ids with
      | nil => simp [trimRec]
      | cons a l =>
        simp only
        by_cases hh : h' ∈ ERA.map (·.2.height)
        · rw [if_pos hh]
          show trimRec _ h' (some (b.id, a :: l)) = _
          unfold trimRec
          simp only
          rw [List.filter_congr (fun t _ => hpred t)]
          generalize (a :: l).filter (fun t => !(ERA.contains (t, (⟨b.height, b.id⟩ : BlockMeta)))) = keep
          cases keep <;> rfl
        · rw [if_neg hh]
          have hall : (a :: l).filter (fun t => !(ERA.contains (t, (⟨b.height, b.id⟩ : BlockMeta)))) = a :: l := by
            apply List.filter_eq_self.2
            intro t _
            simp only [Bool.not_eq_true', List.contains_eq_mem, decide_eq_false_iff_not]
            intro hk
            apply hh
            exact List.mem_map.2 ⟨_, hk, hbh⟩
          rw [hall]
  · -- balances of ready wallets
    intro w' hw'
    rw [readyWallets_congr hst] at hw'
    rw [hb]; exact hM.bal w' hw'
  · intro h'; rw [hsy]; exact hM.sync h'
  · rw [hsyt]; exact hM.syncedTo
  · intro e he
    rw [hR.pendCred] at he
    exact hM.pendOff e (List.mem_filter.1 he).1
  · -- finish: nothing of `w` is left among the credits
    intro hf k cr hgk
    rw [hR.credits] at hgk
    by_cases hk : k ∈ DEL.map (·.1)
    · rw [if_pos hk] at hgk; cases hgk
    · rw [if_neg hk] at hgk
      rw [← H.managed]
      cases hc : addrs.contains cr.sh with
      | false => rfl
      | true =>
        exfalso
        apply hk
        exact List.mem_map.2 ⟨(k, cr), hR.all hf (k, cr) (get_mem hgk) hc, rfl⟩

end
end MW.Lemmas.RemoveInv
