/-
  C08, `remove ⊨ project`, part 5 — the store-level proof.
    `Mid c w addrs own' s chain`  the invariant of a removal in progress: every mined bucket of `s` lies between
        the books of the chain for the full keystore view (`B`) and the books for the view without `w` (`B'`):
        what belongs to another wallet is there, what is missing belongs to `w`, and every leftover of `w` can
        still be found from a credit of `w` that is left.
    `inv_to_mid`   `Inv c s chain` (C01's invariant) gives `Mid`
    `mid_step`     EVERY RemoveRelevantTx (finishing or not) preserves `Mid`
    `mid_done`     after a step that reports `finish`, no credit of `w` is left
-/
import MW.Lemmas.RemoveBooks
import MW.Lemmas.LedgerInv
namespace MW.Lemmas.RemoveInv
open MW MW.Model.Ledger MW.Model.Remove MW.Spec.Chain MW.Spec.Books MW.Lemmas.Ledger MW.Lemmas.RemoveProj
  MW.Lemmas.RemoveChar MW.Lemmas.RemoveBooks MW.Lemmas.RemoveScan MW.Lemmas.RemoveStep MW.Lemmas.RemoveFrame

/-- the standing hypotheses: `own'` is the keystore view without `w`, `addrs` are exactly the script hashes `w`
    manages, the chain is valid, positions are heights, its blocks are in the block files -/
structure RemHyp (c : Ctx) (w : Wid) (addrs : List Addr) (own' : Own) (chain : List Block) : Prop where
  minus : OwnMinus c.own own' w
  managed : ∀ a, addrs.contains a = isW c.own w a
  ne : addrs ≠ []
  valid : ChainValid c.own chain
  heights : HeightsOK chain
  known : ∀ x ∈ chain, AMap.get c.node.known x.id = some x

structure Mid (c : Ctx) (w : Wid) (addrs : List Addr) (own' : Own) (s : Store) (chain : List Block) : Prop where
  nodup : KeysNodup s.credits
  credits : ∀ k, AMap.get s.credits k = (bookOf c.p c.own chain).credits k ∨
    (AMap.get s.credits k = none ∧ ∃ cr, (bookOf c.p c.own chain).credits k = some cr ∧ isW c.own w cr.sh = true)
  debits : ∀ dk, AMap.get s.debits dk = (bookOf c.p c.own chain).debits dk ∨
    (AMap.get s.debits dk = none ∧ ∃ d cr, (bookOf c.p c.own chain).debits dk = some d ∧
      (bookOf c.p c.own chain).credits d.2 = some cr ∧ isW c.own w cr.sh = true)
  /-- a debit of one of `w`'s credits is only there while the credit is -/
  debitsW : ∀ dk d cr, AMap.get s.debits dk = some d → (bookOf c.p c.own chain).credits d.2 = some cr →
    isW c.own w cr.sh = true → AMap.get s.credits d.2 = some cr
  unspent : ∀ w' tx idx, AMap.get s.unspent (w', tx, idx) =
    ((lookupU (bookOf c.p c.own chain).L tx idx).filter (fun u => decide (u.wallet = w'))).map (·.blk)
  game : ∀ k, AMap.get s.game k = (bookOf c.p c.own chain).game k
  txrecs : ∀ k, AMap.get s.txrecs k = (bookOf c.p c.own chain).txrecs k ∨
    (AMap.get s.txrecs k = none ∧ (bookOf c.p own' chain).txrecs k = none)
  /-- a tx record no other wallet needs is only there while a credit of `w` leads to it: one of its own outputs,
      or one it spends -/
  txrecsW : ∀ k loc, AMap.get s.txrecs k = some loc → (bookOf c.p own' chain).txrecs k = none →
    ∃ ck cr, AMap.get s.credits ck = some cr ∧ isW c.own w cr.sh = true ∧
      ((ck.tx = k.1 ∧ ck.blk.height = k.2.height) ∨
        ∃ dk, spKey cr = some dk ∧ dk.tx = k.1 ∧ dk.blk.height = k.2.height)
  blocks : ∀ h, AMap.get s.blocks h = blockRecOf (fun k => (AMap.get s.txrecs k).isSome) chain h
  bal : ∀ w', (readyWallets s c.wallets).contains w' = true →
    AMap.get s.balance w' = some (totalU (bookOf c.p c.own chain).L w')
  sync : ∀ h, AMap.get s.sync h = syncOf chain h
  syncedTo : s.syncedTo + 1 = chain.length
  /-- no unmined credit belongs to a transaction of the chain -/
  pendOff : ∀ e ∈ s.pendCred, e.1.1 ∉ idsOf (occs chain)

section
variable {c : Ctx} {w : Wid} {addrs : List Addr} {own' : Own} {chain : List Block}

-- ------------------------------------------------------------------ removable, read on the books

/-- a transaction of the chain is valid after the ones before it; its inputs name transactions of the chain -/
theorem occ_split (hV : ChainValid c.own chain) {oc : Occ} (hoc : oc ∈ occs chain) :
    ∃ P₁ P₂, occs chain = P₁ ++ oc :: P₂ ∧ OccValid c.own P₁ oc := by
  obtain ⟨P₁, P₂, hs⟩ := List.append_of_mem hoc
  refine ⟨P₁, P₂, hs, ?_⟩
  have hV' : ValidFrom c.own [] (occs chain) := hV
  rw [hs] at hV'
  have := (validFrom_append.1 hV').2
  simp only [List.nil_append] at this
  exact this.1

theorem ins_ids (hV : ChainValid c.own chain) {oc : Occ} (hoc : oc ∈ occs chain) (hcb : oc.t.cb = false)
    {i : Inp} (hi : i ∈ oc.t.ins) : i.tx ∈ idsOf (occs chain) := by
  obtain ⟨P₁, P₂, hs, hval⟩ := occ_split hV hoc
  have := srcOut_isSome_mem (hval.2.1 hcb i hi)
  rw [hs, idsOf_append]
  exact List.mem_append_left _ this

/-- (MW.Props.C08.needed_not_removable, repeated here: lemma files do not import property files) -/
theorem needed_not_removable' (own : Own) (s : Store) (addrs : List Addr) (tx : Tx)
    (h : (∃ o ∈ tx.outs, o.cls ≠ .raw ∧ addrs.contains o.addr = false ∧ (AMap.get own o.addr).isSome = true) ∨
         (tx.cb = false ∧ ∃ i ∈ tx.ins,
            (∃ e ∈ s.credits, e.1.tx = i.tx ∧ e.1.idx = i.idx ∧ addrs.contains e.2.sh = false) ∨
            (∃ cr, AMap.get s.pendCred (i.tx, i.idx) = some cr ∧ addrs.contains cr.sh = false))) :
    removable own s addrs tx = false := by
  unfold removable spendsCreditOfOtherWallet
  simp only [Bool.and_eq_false_iff, Bool.not_eq_false', List.any_eq_true, Bool.and_eq_true, bne_iff_ne, ne_eq,
    Bool.not_eq_true', Bool.or_eq_true, decide_eq_true_eq]
  rcases h with ⟨o, ho, hraw, hna, hown⟩ | ⟨hcb, i, hi, hor⟩
  · exact Or.inl ⟨o, ho, ⟨hraw, hna⟩, hown⟩
  · refine Or.inr ⟨hcb, i, hi, ?_⟩
    rcases hor with ⟨e, he, h1, h2, h3⟩ | ⟨cr, hg, hn⟩
    · exact Or.inl ⟨e, he, ⟨h1, h2⟩, h3⟩
    · right; rw [hg]; simpa using hn

/-- needed by another wallet ⇒ not removable, on any store that has the other wallets' credits -/
theorem not_removable_of_needed (H : RemHyp c w addrs own' chain) {s : Store} {t : Tx}
    (hcr : ∀ ck cr, (bookOf c.p c.own chain).credits ck = some cr → isW c.own w cr.sh = false →
      AMap.get s.credits ck = some cr)
    (hN : NeededBy c.own own' w (bookOf c.p c.own chain) t) : removable c.own s addrs t = false := by
  apply needed_not_removable'
  rcases hN with ⟨o, ho, hoo⟩ | ⟨hcb, i, hi, ck, cr, hck, htx, hidx, hw⟩
  · left
    obtain ⟨x, hx⟩ := Option.isSome_iff_exists.1 hoo
    obtain ⟨hx1, hx2⟩ := (ownerOf_minus_some H.minus).1 hx
    have hraw : o.cls ≠ .raw := by
      intro hr; unfold ownerOf at hx1; simp [hr] at hx1
    have hget : AMap.get c.own o.addr = some x := by
      unfold ownerOf at hx1; simpa [hraw] using hx1
    refine ⟨o, ho, hraw, ?_, by rw [hget]; rfl⟩
    rw [H.managed, isW_of_owner hx1]
    simpa using hx2
  · right
    refine ⟨hcb, i, hi, Or.inl ⟨(ck, cr), get_mem (hcr ck cr hck hw), htx, hidx, ?_⟩⟩
    rw [H.managed]; exact hw

/-- not needed by another wallet ⇒ removable, on any store whose other-wallet credits are credits of the books
    and that has no unmined credit at the inputs -/
theorem removable_of_not_needed (H : RemHyp c w addrs own' chain) {s : Store} {t : Tx}
    (hcr : ∀ e ∈ s.credits, addrs.contains e.2.sh = false → (bookOf c.p c.own chain).credits e.1 = some e.2)
    (hpend : t.cb = false → ∀ i ∈ t.ins, AMap.get s.pendCred (i.tx, i.idx) = none)
    (hN : ¬ NeededBy c.own own' w (bookOf c.p c.own chain) t) : removable c.own s addrs t = true := by
  cases hr : removable c.own s addrs t with
  | true => rfl
  | false =>
    exfalso
    apply hN
    unfold removable spendsCreditOfOtherWallet at hr
    simp only [Bool.and_eq_false_iff, Bool.not_eq_false', List.any_eq_true, Bool.and_eq_true, bne_iff_ne, ne_eq,
      Bool.not_eq_true', Bool.or_eq_true, decide_eq_true_eq] at hr
    rcases hr with ⟨o, ho, ⟨hraw, hna⟩, hown⟩ | ⟨hcb, i, hi, hor⟩
    · left
      obtain ⟨x, hx⟩ := Option.isSome_iff_exists.1 hown
      have hx1 : ownerOf c.own o = some x := by unfold ownerOf; simp [hraw, hx]
      refine ⟨o, ho, ?_⟩
      have hw : x.1 ≠ w := by
        rw [H.managed, isW_of_owner hx1] at hna
        simpa using hna
      rw [(ownerOf_minus_some H.minus).2 ⟨hx1, hw⟩]; rfl
    · right
      refine ⟨hcb, i, hi, ?_⟩
      rcases hor with ⟨e, he, ⟨h1, h2⟩, h3⟩ | hpc
      · exact ⟨e.1, e.2, hcr e he h3, h1, h2, by rw [← H.managed]; exact h3⟩
      · rw [hpend hcb i hi] at hpc; cases hpc

-- ------------------------------------------------------------------ Inv ⇒ Mid

theorem inv_to_mid (H : RemHyp c w addrs own' chain) {s : Store} (hI : Inv c s chain)
    (hn : KeysNodup s.credits) (hp : ∀ e ∈ s.pendCred, e.1.1 ∉ idsOf (occs chain)) :
    Mid c w addrs own' s chain := by
  have hA := hI.agree
  have hBM := bookOf_minus H.minus c.p H.valid
  have hC := credInv_bookOf (p := c.p) H.valid
  refine ⟨hn, fun k => Or.inl (hA.credits k), fun dk => Or.inl (hA.debits dk), ?_, hA.unspent, hA.game,
    fun k => Or.inl (hA.txrecs k), ?_, ?_, hI.bal, hI.sync, hI.syncedTo, hp⟩
  · intro dk d cr _ hcr _
    rw [hA.credits]; exact hcr
  · intro k loc hg hB'
    rw [hA.txrecs] at hg
    obtain ⟨P₁, oc, P₂, hs, ht, hk, hl⟩ := txrec_occ H.valid hg
    have hoc : oc ∈ occs chain := by rw [hs]; simp
    have hnN : ¬ NeededBy c.own own' w (bookOf c.p c.own chain) oc.t := by
      intro hN
      have := (hBM.txrecs k loc).2 ⟨hg, oc, hoc, hk, hN⟩
      rw [hB'] at this; cases this
    have hV1 : ValidFrom c.own [] P₁ := by
      have hV' : ValidFrom c.own [] (occs chain) := H.valid
      rw [hs] at hV'
      exact (validFrom_append.1 hV').1
    have hG1 : Glob c.own P₁ (P₁.foldl (applyOcc c.p c.own) {}) := by
      simpa using glob_fold (p := c.p) (glob_nil c.own) hV1
    unfold touches at ht
    simp only [Bool.or_eq_true, Bool.and_eq_true, Bool.not_eq_true', List.any_eq_true] at ht
    rcases ht with ⟨hcb, i, hi, hl'⟩ | ⟨o, ho, hoo⟩
    · obtain ⟨u, hu⟩ := Option.isSome_iff_exists.1 hl'
      obtain ⟨hm, hut, hui⟩ := lookupU_some hu
      have hc1 : CreatedIn c.own P₁ u := ((hG1.mem u).1 hm).1
      have hcP : CreatedIn c.own (occs chain) u := by rw [hs]; exact createdIn_mono hc1
      obtain ⟨kidx, hkidx⟩ := List.getElem?_of_mem hi
      have hsp : SpentBy (occs chain) (u.tx, u.idx) ⟨oc.t.id, oc.bm, kidx⟩ :=
        ⟨oc, hoc, hcb, kidx, i, hkidx, by unfold opOf; rw [hut, hui], rfl⟩
      have hcr := hC.spent u _ hcP hsp
      have hW : isW c.own w u.out.addr = true := by
        cases hw : isW c.own w u.out.addr with
        | true => rfl
        | false => exact absurd (Or.inr ⟨hcb, i, hi, u.credKey, _, hcr, hut, hui, hw⟩) hnN
      refine ⟨u.credKey, _, by rw [hA.credits]; exact hcr, hW, Or.inr ⟨⟨oc.t.id, oc.bm, kidx⟩, by simp [spKey], ?_, ?_⟩⟩
      · rw [hk]
      · rw [hk]
    · obtain ⟨x, hx⟩ := Option.isSome_iff_exists.1 hoo
      obtain ⟨j, hj⟩ := List.getElem?_of_mem ho
      have hcP : CreatedIn c.own (occs chain) ⟨x.1, oc.t.id, j, oc.bm, oc.t.cb, o, x.2⟩ :=
        ⟨oc, hoc, rfl, hj, hx, rfl, rfl⟩
      obtain ⟨cr, hcr, hsh⟩ := credit_sh_of_created hC hcP
      have hW : isW c.own w cr.sh = true := by
        rw [hsh]
        show isW c.own w o.addr = true
        rw [isW_of_owner hx]
        by_cases hxw : x.1 = w
        · simpa using hxw
        · exfalso
          apply hnN
          exact Or.inl ⟨o, ho, by rw [(ownerOf_minus_some H.minus).2 ⟨hx, hxw⟩]; rfl⟩
      refine ⟨_, cr, by rw [hA.credits]; exact hcr, hW, Or.inl ⟨?_, ?_⟩⟩
      · rw [hk]; rfl
      · rw [hk]; rfl
  · intro h
    rw [hA.blocks, blocks_eq_blockRecOf c.p c.own chain H.valid H.heights h]
    exact blockRecOf_congr chain h (fun k => by rw [hA.txrecs])

-- ------------------------------------------------------------------ the credits bucket keeps distinct keys

theorem scan_nodup (limit : Nat) (addrs : List Addr) (l : List (CredKey × Credit)) (sc : Scan)
    (h : KeysNodup sc.s.credits) : KeysNodup (l.foldl (scanCredit limit addrs) sc).s.credits := by
  induction l generalizing sc with
  | nil => exact h
  | cons e l ih =>
    apply ih
    rcases scanCredit_sharp limit addrs sc e with ⟨_, h'⟩ | ⟨_, _, h'⟩ | ⟨_, _, _, h', _⟩ | ⟨_, _, h'⟩
    · rw [h']; exact h
    · rw [h']; exact h
    · rw [h']; exact h
    · rw [h']
      show KeysNodup (dropDebit (deleteCredit sc.s e.1) (spKey e.2)).credits
      rw [dropDebit_credits]
      exact keysNodup_erase h _

theorem rrt_nodup (limit : Nat) (c : Ctx) (s : Store) (addrs : List Addr) (o : StepOut) (hne : addrs ≠ [])
    (h : removeRelevantTx limit c s addrs = some o) (hn : KeysNodup s.credits) : KeysNodup o.s.credits := by
  obtain ⟨s1, h1, h2, _, _⟩ := (removeRelevantTx_spec limit c s addrs o hne h).credits
  have e1 : s1.credits = s.credits := congrArg Prod.fst h1
  have e2 : o.s.credits = (removeRelevantCredit limit s1 addrs).s.credits := congrArg Prod.fst h2
  rw [e2]
  unfold removeRelevantCredit
  exact scan_nodup limit addrs _ _ (by rw [e1]; exact hn)

end
end MW.Lemmas.RemoveInv
