/-
  THE INVARIANT of the ledger (C01 goal 1): `Inv c s chain` – store `s` holds exactly the books of `chain`.
-/
import MW.Lemmas.LedgerAddrs
namespace MW.Lemmas.Ledger
open MW MW.Model.Ledger MW.Spec.Chain MW.Spec.Books

/-- `Inv c s chain`: every mined bucket of `s` is the corresponding table of the books of `chain`
    (unspent index = the spec ledger `ledgerOf` with block ids, credit table = every owned output with spent
    flag and spender as the chain has them, one debit per owned spent input, deposit records with the
    withdrawn flag, tx records and block records of the relevant transactions),
    the balance of every ready wallet is the total of its ledger entries, the synced-to table is the
    height ↦ id map of the chain and its tip pointer the last height.
    The address records (first-use heights) are NOT part of `Inv`: Rollback resets a rolled-back first use
    to 0 instead of restoring the previous record; for forward processing they are covered by
    `connect_sound_full` / `InvFull`. -/
structure Inv (c : Ctx) (s : Store) (chain : List Block) : Prop where
  agree : AgreeM s (bookOf c.p c.own chain)
  bal : ∀ w, (readyWallets s c.wallets).contains w = true →
    AMap.get s.balance w = some (totalU (bookOf c.p c.own chain).L w)
  sync : ∀ h, AMap.get s.sync h = syncOf chain h
  syncedTo : s.syncedTo + 1 = chain.length

/-- the books of a chain started from an address table `a0` (the records of the addresses issued so far,
    `some 0` = issued and unused); every other table is that of `bookOf` (`booksFrom_eqM`) -/
def booksFrom (p : Params) (own : Own) (a0 : Wid × Bool × Addr → Option Nat) (chain : List Block) : Book :=
  (occs chain).foldl (applyOcc p own) { addrs := a0 }

theorem booksFrom_eqM (p : Params) (own : Own) (a0 : Wid × Bool × Addr → Option Nat) (chain : List Block) :
    EqM (booksFrom p own a0 chain) (bookOf p own chain) :=
  foldOcc_eqM _ _ _ (eqM_withAddrs ({} : Book) a0).symm

/-- `Inv` plus the address records (first-use heights), relative to the table `a0` of issued addresses:
    preserved by connecting blocks (`connect_sound_full`); NOT by rollback (see `Inv`) -/
structure InvFull (c : Ctx) (s : Store) (a0 : Wid × Bool × Addr → Option Nat) (chain : List Block) : Prop
    extends Inv c s chain where
  addrs : ∀ k, AMap.get s.addrs k = (booksFrom c.p c.own a0 chain).addrs k

theorem syncOf_snoc (chain : List Block) (b : Block) (k : Nat) :
    syncOf (chain ++ [b]) k = if chain.length = k then some b.id else syncOf chain k := by
  unfold syncOf
  by_cases hk : chain.length = k
  · subst hk; simp
  · simp only [hk, if_false]
    by_cases hlt : k < chain.length
    · rw [List.getElem?_append_left hlt]
    · have : chain.length < k := by omega
      rw [List.getElem?_eq_none (by simp; omega), List.getElem?_eq_none (by omega)]

theorem syncOf_lt {chain : List Block} {k : Nat} (h : k < chain.length) : (syncOf chain k).isSome = true := by
  unfold syncOf; rw [List.getElem?_eq_getElem h]; rfl

theorem syncOf_ge {chain : List Block} {k : Nat} (h : chain.length ≤ k) : syncOf chain k = none := by
  unfold syncOf; rw [List.getElem?_eq_none h]; rfl

/-- putSyncedTo on the next height succeeds and extends the table -/
theorem putSyncedTo_snoc {s : Store} {chain : List Block} {b : Block}
    (hsync : ∀ h, AMap.get s.sync h = syncOf chain h) (hlen : 0 < chain.length) (hheight : b.height = chain.length) :
    ∃ s', putSyncedTo s ⟨b.height, b.id⟩ = .ok s' ∧ (∀ h, AMap.get s'.sync h = syncOf (chain ++ [b]) h) ∧
      s'.syncedTo + 1 = (chain ++ [b]).length ∧
      s' = { s with sync := s'.sync, syncedTo := s'.syncedTo } := by
  have h1 : (AMap.get s.sync (b.height - 1)).isNone = false := by
    rw [hsync, hheight]
    have := syncOf_lt (chain := chain) (k := chain.length - 1) (by omega)
    cases h : syncOf chain (chain.length - 1) with
    | none => rw [h] at this; cases this
    | some x => rfl
  have h2 : (AMap.get s.sync (b.height + 1)).isSome = false := by
    rw [hsync, hheight, syncOf_ge (by omega)]; rfl
  refine ⟨{ s with sync := AMap.put s.sync b.height b.id, syncedTo := b.height }, ?_, ?_, ?_, rfl⟩
  · unfold putSyncedTo
    simp [h1, h2]
  · intro h
    simp only
    rw [AMap.get_put, syncOf_snoc, hsync, hheight]
  · simp [hheight]

end MW.Lemmas.Ledger
