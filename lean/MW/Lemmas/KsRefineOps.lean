/-
  The symbolic keystore model as an abstraction of the byte level, part 4: every database-writing operation of
  MW.Model.Secrets (create, import keystore, import mnemonic, new address, change public passphrase, remove) against
  its byte-level writer, and export as a byte-level read.
-/
import MW.Lemmas.KsRefineInstall
import MW.Lemmas.SecretsInv
import Mathlib.Tactic.SplitIfs
namespace MW.KsRefine
open MW MW.Model.Secrets MW.Model.KsCodec MW.Model.KsBytes MW.KsCodecL
open MW.Gen.KsCodec (keystoreVersionName masterPrivKeyName masterPubKeyName cryptoPrivKeyName cryptoPubKeyName
  cryptoEntropyKeyName entropyEncKeyName accountUsageName coinTypeName remarkName externalBranchPubKeyName
  internalBranchPubKeyName externalChildNumName internalChildNumName accountMASS)

-- ------------------------------------------------------------------ what the symbolic operations write

theorem create_ok_db {st : St} {w : String} {p : Pass} {bits : Nat} (h : (create st w p bits).2 = .ok) :
    (create st w p bits).1.db = putAll st.db (acctEntries w w p 0 0 (paramsT (st.nonce + 1) p) (masterKey (st.nonce + 1) p)
      (paramsT st.nonce st.pubPass) (masterKey st.nonce st.pubPass) (st.nonce + 2) (st.nonce + 3) (st.nonce + 4)) := by
  unfold create at h ⊢
  split_ifs at h ⊢ <;> simp_all [fail]

theorem importKS_db (st : St) (k : String) (p : Pass) : (importKS st k p).2 ≠ .ok ∨
    ∃ x e mkPriv, AMap.get st.exports k = some x ∧ deriveKey x.privParams p = some mkPriv ∧ AMap.get st.wal x.wallet = none ∧
      (importKS st k p).1.db = putAll st.db (acctEntries x.wallet e p (if x.nExt = 0 then 1 else x.nExt) x.nInt x.privParams mkPriv
        (paramsT st.nonce st.pubPass) (masterKey st.nonce st.pubPass) (st.nonce + 1) (st.nonce + 2) (st.nonce + 3)) := by
  unfold importKS
  split
  · left; simp
  · rename_i x hx
    split
    · left; simp [fail]
    · rename_i mk hmk
      split
      · rename_i e he
        by_cases h1 : endsZero st.pubPass = true
        · left; simp [h1, fail]
        · by_cases h2 : (AMap.get st.wal x.wallet).isSome = true
          · left; simp [h1, h2, fail]
          · right
            refine ⟨x, e, mk, hx, hmk, ?_, by simp [h1, h2]⟩
            cases hw : AMap.get st.wal x.wallet with
            | none => rfl
            | some v => simp [hw] at h2
      · left; simp [fail]

theorem importKS_ok_db {st : St} {k : String} {p : Pass} (h : (importKS st k p).2 = .ok) :
    ∃ x e mkPriv, AMap.get st.exports k = some x ∧ deriveKey x.privParams p = some mkPriv ∧ AMap.get st.wal x.wallet = none ∧
      (importKS st k p).1.db = putAll st.db (acctEntries x.wallet e p (if x.nExt = 0 then 1 else x.nExt) x.nInt x.privParams mkPriv
        (paramsT st.nonce st.pubPass) (masterKey st.nonce st.pubPass) (st.nonce + 1) (st.nonce + 2) (st.nonce + 3)) :=
  (importKS_db st k p).resolve_left (fun hne => hne h)

theorem importMn_db (st : St) (w : String) (p : Pass) (src : String) (ext int : Nat) :
    (∀ name, (importMn st w p src ext int).2 ≠ .okName name) ∨
    ∃ e name, (importMn st w p src ext int).2 = .okName name ∧ AMap.get st.wal name = none ∧
      (importMn st w p src ext int).1.db = putAll st.db (acctEntries name e p (if ext = 0 then 1 else ext) int
        (paramsT (st.nonce + 1) p) (masterKey (st.nonce + 1) p) (paramsT st.nonce st.pubPass) (masterKey st.nonce st.pubPass)
        (st.nonce + 2) (st.nonce + 3) (st.nonce + 4)) := by
  unfold importMn
  split
  · left; simp
  · rename_i e q hsrc
    simp only
    by_cases h1 : (decide (identName st e p w = w) && (AMap.get st.idents w).isSome &&
        decide (AMap.get st.idents w ≠ some (e, p))) = true
    · left; simp only [h1, if_true]; simp
    · by_cases h2 : (endsZero st.pubPass || endsZero p) = true
      · left; simp only [h1, h2, if_true, if_false]; simp [fail]
      · by_cases h3 : (AMap.get st.wal (identName st e p w)).isSome = true
        · left; simp only [h1, h2, h3, if_true, if_false]; simp [fail]
        · right
          refine ⟨e, identName st e p w, by simp only [h1, h2, h3, Bool.false_eq_true, if_false], ?_,
            by simp only [h1, h2, h3, Bool.false_eq_true, if_false]⟩
          cases hw : AMap.get st.wal (identName st e p w) with
          | none => rfl
          | some v => simp [hw] at h3

theorem newAddr_db (st : St) (w : String) : (newAddr st w).2 ≠ .ok ∨
    ∃ r a, AMap.get st.wal w = some (r, a) ∧
      (newAddr st w).1.db = putAll st.db
        [ ((w, .exNum), .pub "n"),
          ((w, .pubk 0 r.nExt), .enc (exbKey (dbGet st.db w .exb)) (.pub "pubkey")) ] ∧
      r.nExt < gapLimit := by
  unfold newAddr
  split
  · left; simp
  · rename_i r a hw
    by_cases h1 : r.nExt ≥ gapLimit
    · left; simp [h1]
    · right
      refine ⟨r, a, hw, ?_, by omega⟩
      simp only [h1, if_false, putAll, List.foldl_cons, List.foldl_nil]
      congr 2

theorem newAddr_ok_db {st : St} {w : String} (h : (newAddr st w).2 = .ok) :
    ∃ r a, AMap.get st.wal w = some (r, a) ∧
      (newAddr st w).1.db = putAll st.db
        [ ((w, .exNum), .pub "n"),
          ((w, .pubk 0 r.nExt), .enc (exbKey (dbGet st.db w .exb)) (.pub "pubkey")) ] ∧
      r.nExt < gapLimit :=
  (newAddr_db st w).resolve_left (fun hne => hne h)

-- ------------------------------------------------------------------ writes that are concretised entry by entry

theorem rep_conc {C : BCrypto} (L : Laws C) {ρ ρ' : PubVal} {db : DB} {t : Tree} (es : List (Key × Term))
    (h : Rep C ρ db t) (hρ : ∀ K, (∀ e ∈ es, e.1 ≠ K) → ρ' K = ρ K) (hok : ∀ e ∈ es, KeyOk e.1.2) :
    Rep C ρ' (putAll db es) (tinsAll t (es.map (conc C ρ'))) := by
  refine rep_writes L es _ h hρ hok ?_ ?_
  · intro K hK
    exact lastW_map (loc C) (valBytes C ρ') es K (fun x hx hl => loc_inj C L (hok x hx) hK hl)
  · intro x hx
    simp only [List.mem_map] at hx
    obtain ⟨e, he, rfl⟩ := hx
    exact ⟨e, he, rfl⟩

theorem lastW_reverse (db : DB) (K : Key) : lastW db.reverse K = AMap.get db K := by
  induction db with
  | nil => rfl
  | cons x r ih =>
    rw [List.reverse_cons, lastW_append, ih, AMap.get_cons]
    by_cases h : x.1 = K <;> simp [lastW, h]

/-- every symbolic database whose keys are representable HAS a representing byte tree (for any public valuation):
    the byte-level statements are about something in every such state -/
theorem rep_exists (C : BCrypto) (L : Laws C) (ρ : PubVal) (db : DB) (hk : ∀ e ∈ db, KeyOk e.1.2) : ∃ t, Rep C ρ db t := by
  have h := rep_conc L (ρ := ρ) (ρ' := ρ) db.reverse (rep_empty C ρ) (fun _ _ => rfl)
    (fun e he => hk e (List.mem_reverse.mp he))
  refine ⟨tinsAll (fun _ => []) (db.reverse.map (conc C ρ)), ⟨fun p kb => ?_, fun K hK => ?_⟩⟩
  · rw [h.1 p kb]
    cases unloc C p kb with
    | none => rfl
    | some K => simp only [Option.bind_some, get_putAll_lastW, lastW_reverse, AMap.get_nil, Option.or_none]
  · cases hg : AMap.get db K with
    | none => rw [hg] at hK; cases hK
    | some v => exact hk _ (MW.Lemmas.SecretsInv.get_mem hg)

/-- nextAddresses for one external address: the counter and the public key, in that order -/
theorem newAddrB_eq (t : Tree) (id : Bytes) (next : Nat) (pkEnc : Bytes) (hpk : pkEnc ≠ []) :
    newAddrB t id next pkEnc = .ok (tinsAll t [ ((.acct id, key externalChildNumName), u32Bytes (next + 1)),
                                                ((.pub id, pubKeyKey MW.Gen.Keystore.externalBranch next), pkEnc) ]) := by
  have e1 : ∀ t : Tree, onB t (.acct id) (fun b => updateChildNum b false (next + 1)) =
      .ok (tinsAll t [((.acct id, key externalChildNumName), u32Bytes (next + 1))]) := fun t =>
    onB_isPuts t _ _ [(key externalChildNumName, u32Bytes (next + 1))] (fun b => by
      simp [updateChildNum, putU32, childNumName, bput_ok b (show key externalChildNumName ≠ [] by decide) (u32Bytes_ne_nil _), insAll])
  have hk : pubKeyKey MW.Gen.Keystore.externalBranch next ≠ [] := by
    intro e; have := pubKeyKey_length MW.Gen.Keystore.externalBranch next; rw [e] at this; simp at this
  have e2 : ∀ t : Tree, onB t (.pub id) (fun pk => putEncryptedPubKey pk MW.Gen.Keystore.externalBranch next pkEnc) =
      .ok (tinsAll t [((.pub id, pubKeyKey MW.Gen.Keystore.externalBranch next), pkEnc)]) := fun t =>
    onB_isPuts t _ _ [(pubKeyKey MW.Gen.Keystore.externalBranch next, pkEnc)] (fun b => by
      simp [putEncryptedPubKey, bput_ok b hk hpk, insAll])
  simp only [newAddrB, e1, e2, seqE_ok, ← tinsAll_append]
  rfl

/-- SYM_WRITE_REFINES_BYTES, new address -/
theorem newAddr_refines (C : BCrypto) (L : Laws C) (ρ ρ' : PubVal) (st : St) (t : Tree) (w : String)
    (h : Rep C ρ st.db t) (hok : (newAddr st w).2 = .ok) :
    ∃ r a, AMap.get st.wal w = some (r, a) ∧
      (ρ' (w, .exNum) = u32Bytes (r.nExt + 1) →
       (∀ K, K ≠ (w, .exNum) → K ≠ (w, .pubk 0 r.nExt) → ρ' K = ρ K) →
       ∃ t', newAddrB t (C.walletId w) r.nExt
               (valBytes C ρ' (w, .pubk 0 r.nExt) (dbGet (newAddr st w).1.db w (.pubk 0 r.nExt))) = .ok t' ∧
             Rep C ρ' (newAddr st w).1.db t') := by
  obtain ⟨r, a, hw, hdb, hgap⟩ := newAddr_ok_db hok
  refine ⟨r, a, hw, fun hex hρ => ?_⟩
  have hval : dbGet (newAddr st w).1.db w (.pubk 0 r.nExt) =
      .enc (exbKey (dbGet st.db w .exb)) (.pub "pubkey") := by
    rw [hdb]; simp [putAll, MW.Lemmas.SecretsDB.dbGet_put]
  rw [hval, hdb]
  have hrep := rep_conc L (ρ' := ρ')
    [ ((w, KeyName.exNum), Term.pub "n"),
      ((w, .pubk 0 r.nExt), .enc (exbKey (dbGet st.db w .exb)) (.pub "pubkey")) ] h
    (fun K hK => hρ K (fun e => hK ((w, KeyName.exNum), Term.pub "n") (by simp) e.symm)
      (fun e => hK ((w, .pubk 0 r.nExt), .enc (exbKey (dbGet st.db w .exb)) (.pub "pubkey")) (by simp) e.symm))
    (by
      intro e he
      simp only [List.mem_cons, List.not_mem_nil, or_false] at he
      rcases he with rfl | rfl
      · trivial
      · exact ⟨by decide, by unfold gapLimit at hgap; omega⟩)
  refine ⟨_, newAddrB_eq t _ _ _ (by simp [valBytes, bytesOf, L.box_ne]), ?_⟩
  simpa [conc, loc, valBytes, bytesOf, genName, hex, MW.Gen.Keystore.externalBranch] using hrep

/-- ChangePubPassphrase, one keystore: new parameter block, the public crypto key re-sealed -/
theorem chpubOneB_eq (t : Tree) (id : Bytes) (pubParams cPubEnc : Bytes) (h1 : pubParams ≠ []) (h2 : cPubEnc ≠ []) :
    chpubOneB t id pubParams cPubEnc = .ok (tinsAll t [ ((.acct id, key masterPubKeyName), pubParams),
                                                         ((.acct id, key cryptoPubKeyName), cPubEnc) ]) := by
  have e1 : ∀ t : Tree, onB t (.acct id) (fun b => putMasterKeyParams b (some pubParams) none) =
      .ok (tinsAll t [((.acct id, key masterPubKeyName), pubParams)]) := fun t =>
    onB_isPuts t _ _ [(key masterPubKeyName, pubParams)] (fun b => by
      have := bput_ok b (k := key masterPubKeyName) (by decide) h1
      simp only [putMasterKeyParams, putOpt_some, putOpt_none, this, bind, Except.bind, insAll, List.foldl_cons, List.foldl_nil])
  have e2 : ∀ t : Tree, onB t (.acct id) (fun b => putCryptoKeys b (some cPubEnc) none none) =
      .ok (tinsAll t [((.acct id, key cryptoPubKeyName), cPubEnc)]) := fun t =>
    onB_isPuts t _ _ [(key cryptoPubKeyName, cPubEnc)] (fun b => by
      have := bput_ok b (k := key cryptoPubKeyName) (by decide) h2
      simp only [putCryptoKeys, putOpt_some, putOpt_none, this, bind, Except.bind, insAll, List.foldl_cons, List.foldl_nil])
  simp only [chpubOneB, e1, e2, seqE_ok, ← tinsAll_append]
  rfl

/-- SYM_WRITE_REFINES_BYTES, change of the public passphrase, per keystore -/
theorem chpubOne_refines (C : BCrypto) (L : Laws C) (ρ : PubVal) (db : DB) (t : Tree) (w : String) (salt : Nat) (new : Pass)
    (ck : Term) (h : Rep C ρ db t) :
    ∃ t', chpubOneB t (C.walletId w) (valBytes C ρ (w, .mpub) (paramsT salt new))
            (valBytes C ρ (w, .cpub) (.enc (masterKey salt new) ck)) = .ok t' ∧
      Rep C ρ (putAll db (chpubEntries w salt new ck)) t' := by
  have hrep := rep_conc L (ρ' := ρ) (chpubEntries w salt new ck) h (fun _ _ => rfl)
    (by intro e he; simp only [chpubEntries, List.mem_cons, List.not_mem_nil, or_false] at he; rcases he with rfl | rfl <;> trivial)
  have hp : valBytes C ρ (w, .mpub) (paramsT salt new) ≠ [] := by
    intro e; have := paramsT_bytes C L (ρ (w, .mpub)) salt new; simp only [valBytes] at e; rw [e] at this; simp at this
  refine ⟨_, chpubOneB_eq t _ _ _ hp (by simp [valBytes, bytesOf, L.box_ne]), ?_⟩
  simpa [chpubEntries, conc, loc, genName] using hrep

/-- the fold of ChangePubPassphrase is the symbolic write list of its steps -/
theorem chpubWrites_fold (db0 : DB) (old new : Pass) (ws : List (String × WRec × AM)) : ∀ (acc : DB × Nat),
    ws.foldl (fun (acc : DB × Nat) e =>
        let w := e.1
        let ck := match deriveKey (dbGet db0 w .mpub) old with
          | some mkOld => (dec mkOld (dbGet db0 w .cpub)).getD (.pub "missing")
          | none => .pub "missing"
        (AMap.put (AMap.put acc.1 (w, .mpub) (paramsT acc.2 new)) (w, .cpub) (.enc (masterKey acc.2 new) ck), acc.2 + 1)) acc =
      (putAll acc.1 ((List.range ws.length).zip ws |>.flatMap (fun ie =>
          chpubEntries ie.2.1 (acc.2 + ie.1) new
            (match deriveKey (dbGet db0 ie.2.1 .mpub) old with
             | some mkOld => (dec mkOld (dbGet db0 ie.2.1 .cpub)).getD (.pub "missing")
             | none => .pub "missing"))), acc.2 + ws.length) := by
  induction ws with
  | nil => intro acc; simp [putAll]
  | cons e es ih =>
    intro acc
    rw [List.foldl_cons, ih]
    simp only [List.length_cons, List.range_succ_eq_map, List.zip_cons_cons, List.flatMap_cons, List.zip_map_left,
      List.flatMap_map, Nat.add_zero, MW.Lemmas.SecretsDB.putAll_append]
    refine Prod.ext ?_ (by simp; omega)
    simp only [chpubEntries, putAll, List.foldl_cons, List.foldl_nil]
    congr 2
    funext ie
    simp [Nat.add_assoc, Nat.add_comm 1]

-- ------------------------------------------------------------------ remove

theorem get_eraseWallet_same (db : DB) (w : String) (k : KeyName) : AMap.get (eraseWallet db w) (w, k) = none := by
  unfold eraseWallet AMap.get
  induction db with
  | nil => rfl
  | cons x xs ih =>
    by_cases hx : x.1.1 = w
    · simp only [List.filter, hx, decide_true, Bool.not_true]; exact ih
    · have : ¬ x.1 = (w, k) := fun e => hx (by rw [e])
      simp only [List.filter, hx, decide_false, Bool.not_false, List.find?, this]
      exact ih

/-- SYM_WRITE_REFINES_BYTES, remove: DeleteKeystore (account bucket with its sub-bucket cleared and deleted, account id
    deleted) leaves the tree that represents the symbolic database without the wallet's keys -/
theorem remove_refines (C : BCrypto) (L : Laws C) (ρ : PubVal) (db : DB) (t : Tree) (w : String) (h : Rep C ρ db t) :
    Rep C ρ (eraseWallet db w) (removeB t (C.walletId w)) := by
  have hname : ∀ {id : Bytes} {w' : String}, C.nameOf id = some w' → (id = C.walletId w ↔ w' = w) := by
    intro id w' hn
    constructor
    · intro e; rw [e, L.name_id] at hn; exact (Option.some.inj hn).symm
    · intro e; rw [← e]; exact (L.id_name _ _ hn).symm
  refine ⟨fun p kb => ?_, fun K hK => ?_⟩
  · have hold := h.1 p kb
    cases p with
    | aid =>
      simp only [removeB, tget, set_same, deleteAccountID, bget_bdel]
      simp only [unloc] at hold ⊢
      cases hn : C.nameOf kb with
      | none =>
        have : tget t (BPath.aid, kb) = none := by rw [hold, hn]; rfl
        by_cases hk : kb = C.walletId w
        · simp [hk]
        · simpa [hk, tget] using this
      | some w' =>
        by_cases hk : kb = C.walletId w
        · have : w' = w := (hname hn).mp hk
          subst this
          simp [hk, get_eraseWallet_same]
        · have hne : w' ≠ w := fun e => hk ((hname hn).mpr e)
          rw [hn] at hold
          simp only [Option.map_some, Option.bind_some] at hold ⊢
          simp only [hk, if_false, MW.Lemmas.SecretsDB.get_eraseWallet_other db hne]
          exact hold
    | acct id =>
      simp only [unloc] at hold ⊢
      by_cases hid : id = C.walletId w
      · subst hid
        have : tget (removeB t (C.walletId w)) (BPath.acct (C.walletId w), kb) = none := by
          simp [removeB, tget, Tree.set, bget, KV.SMap.get]
        rw [this, L.name_id]
        cases unlocKey kb <;> simp [get_eraseWallet_same]
      · have hsame : tget (removeB t (C.walletId w)) (BPath.acct id, kb) = tget t (BPath.acct id, kb) := by
          simp [removeB, tget, Tree.set, hid]
        rw [hsame, hold]
        cases hn : C.nameOf id with
        | none => rfl
        | some w' =>
          have hne : w' ≠ w := fun e => hid ((hname hn).mpr e)
          cases unlocKey kb with
          | none => rfl
          | some k => simp [MW.Lemmas.SecretsDB.get_eraseWallet_other db hne]
    | pub id =>
      simp only [unloc] at hold ⊢
      by_cases hid : id = C.walletId w
      · subst hid
        have : tget (removeB t (C.walletId w)) (BPath.pub (C.walletId w), kb) = none := by
          simp [removeB, tget, Tree.set, bget, KV.SMap.get]
        rw [this, L.name_id]
        by_cases hl : kb.length = 8 <;> simp [hl, get_eraseWallet_same]
      · have hsame : tget (removeB t (C.walletId w)) (BPath.pub id, kb) = tget t (BPath.pub id, kb) := by
          simp [removeB, tget, Tree.set, hid]
        rw [hsame, hold]
        cases hn : C.nameOf id with
        | none => rfl
        | some w' =>
          have hne : w' ≠ w := fun e => hid ((hname hn).mpr e)
          by_cases hl : kb.length = 8 <;> simp [hl, MW.Lemmas.SecretsDB.get_eraseWallet_other db hne]
  · by_cases hw : K.1 = w
    · obtain ⟨w', k⟩ := K
      simp only at hw
      subst hw
      rw [get_eraseWallet_same] at hK
      cases hK
    · obtain ⟨w', k⟩ := K
      rw [MW.Lemmas.SecretsDB.get_eraseWallet_other db hw] at hK
      exact h.2 _ hK

end MW.KsRefine
