/-
  C06 deepening (round 5), part 1: THE REMOVAL WINDOW WITH FOLLOWER STEPS — definitions.
  `JRmidW` = round 4's `JRmid` with C08's `Mid` replaced by C08 round 7's relaxed state `P2W` (a ghost store following the
  chain with `w` flagged, the real store related by `SubW`, `Reach`, the relaxed in-progress invariant `MidCW`): the state
  that tip notifications — extensions and reorganisations of any depth — keep (`p2w_processM`).
  `JTW` = round 4's `JT` with that phase inside a removal window.
-/
import MW.Lemmas.Deepen4Main
import MW.Lemmas.RemoveBelow3
namespace MW.Lemmas.Deepen5
open MW MW.Model.Ledger MW.Model.Persist MW.Spec.Persist MW.Spec.Chain MW.Spec.Books MW.Lemmas.Ledger
  MW.Lemmas.PersistOp MW.Lemmas.PersistFault MW.Lemmas.PersistCrash MW.Lemmas.Deepen3 MW.Lemmas.Deepen4

/-- the removal of `w` is in progress; the follower may have run in between (C08's `P2W`) -/
structure JRmidW (cfg : Cfg) (G : Block) (x : SysQ) (k : Skel) (w : Wid) : Prop where
  chain : x.chain = k.chain
  ks : x.P.ks = k.ks
  keys : x.V.keys = k.ks
  nodupW : (walletsOf k.ks).Nodup
  nodupA : KeysNodup (ownOf k.ks)
  stored : ∃ r, AMap.get k.ks w = some r ∧ r.addrs ≠ []
  task : x.V.tasks.contains (.rem w) = true
  fol : ∃ X g kk, ChainOK (lenv cfg.st k.ks) G X ∧
    MW.Lemmas.RemoveInterleave.P2W ((lenv cfg.st k.ks).ctx k.chain) w (addrsOf k.ks w) (ownOf (AMap.erase k.ks w))
      g x.P.led X kk ∧
    x.V.led.best = tipMeta X ∧ (∃ c ∈ k.hist, X <+: c) ∧ (x.queue = [] → X = k.chain)
  qknown : ∀ b ∈ x.queue, AMap.get cfg.st.known b.id = some b
  qlast : x.queue ≠ [] → x.queue.getLast? = k.chain.getLast?
  chainOK : ChainOK (lenv cfg.st k.ks) G k.chain
  cur : k.chain ∈ k.hist
  others : ∀ w' ∈ walletsOf k.ks, w' ≠ w → readyB x.P.led w' = true
  other : ∃ w', w' ≠ w ∧ w' ∈ walletsOf k.ks

/-- the phase of a removal window: in progress (relaxed), or the finishing iteration has run -/
def JRW (cfg : Cfg) (G : Block) (x : SysQ) (k : Skel) (w : Wid) : Prop := JRmidW cfg G x k w ∨ JRdone cfg G x k w

def PhaseT (cfg : Cfg) (G : Block) (x : SysQ) (k : SkelT) : Prop :=
  match k.busy with
  | none => JQ cfg.st G x k.base
  | some (.imp w) => JI cfg G x k.base w
  | some (.rem w) => JRW cfg G x k.base w

/-- round 4's `JT` with the relaxed phase inside a removal window -/
structure JTW (cfg : Cfg) (G : Block) (x : SysQ) (k : SkelT) : Prop where
  short : ∀ c ∈ k.base.hist, c.length + cfg.batch < 2 ^ 64
  qsuf : x.queue <:+ k.queue
  credN : KeysNodup x.P.led.credits
  phase : PhaseT cfg G x k

/-- the flag of the wallet, read off the relaxed state -/
theorem JRmidW.flagged {cfg : Cfg} {G : Block} {x : SysQ} {k : Skel} {w : Wid} (h : JRmidW cfg G x k w) :
    AMap.get x.P.led.status w = some ⟨none, true⟩ := by
  obtain ⟨X, g, kk, _, hP, _⟩ := h.fol
  rw [hP.sub.status]; exact hP.ghost.flag

/-- C08's static hypotheses from the skeleton -/
theorem static_of {cfg : Cfg} {G : Block} {k : Skel} {w : Wid} {r : KsRec} {X : List Block}
    (hX : ChainOK (lenv cfg.st k.ks) G X) (hnA : KeysNodup (ownOf k.ks)) (hnW : (walletsOf k.ks).Nodup)
    (hr : AMap.get k.ks w = some r) (hrne : r.addrs ≠ []) (chain : List Block) :
    MW.Lemmas.RemoveInterleave.Static ((lenv cfg.st k.ks).ctx chain) w (addrsOf k.ks w) (ownOf (AMap.erase k.ks w)) := by
  have H := remHyp_of (chain := chain) hX hnA hnW hr hrne
  exact ⟨H.minus, H.managed, H.ne, hnA⟩

end MW.Lemmas.Deepen5
