/-
  C08, removal INTERLEAVED with follower events — the two-phase invariant of a history.
    `flagged_run_projects`  any follower activity between RemoveWallet and the first removal step (`FJ`), then the worker
                            loop: C01's invariant for the table without the wallet
    `Phase1`   no removal step has run yet: the store follows the chain with `w` flagged (`FJ`)
    `Phase2`   removal in progress: a GHOST store `g` (the store as it would be without the removal steps so far) follows
               the chain with `w` flagged, the real store is the ghost minus some records of `w` (`SubG`) and satisfies
               the in-progress invariant `MidC` relative to the joined book of the ghost height
    `phase1_notify` `phase1_recv` `phase2_recv` `phase1_restart` `phase2_restart` `phase1_rem` `phase2_rem`
               the events keep the phases (a finishing removal step ends in C01's invariant without the wallet)
    `DomA`     histories whose block notifications all come before the first removal step
    `remove_after_follower_projects`   … end in C01's invariant for the table without the wallet, on the chain the
               follower was last told about
    `phase1_of_inv`   the hypotheses of `InterleavedProjects` (+ the flagged wallet's own balance entry, + some other
               wallet ready) give `Phase1`
-/
import MW.Lemmas.RemoveInterleave
import MW.Lemmas.RemoveFlagged
import MW.Lemmas.RemoveJoin
import MW.Lemmas.RemoveGlue
import MW.Lemmas.LedgerWFCred2
import MW.Lemmas.PendHistRun
namespace MW.Lemmas.RemoveInterleave
open MW MW.Model.Ledger MW.Model.Remove MW.Spec.Chain MW.Spec.Books MW.Lemmas.Ledger MW.Lemmas.RemoveProj
  MW.Lemmas.RemoveInv MW.Lemmas.RemoveMain MW.Lemmas.RemoveUpper MW.Lemmas.RemoveJoin MW.Lemmas.RemoveGlue
  MW.Lemmas.RemoveFlagged MW.Lemmas.ImportReorg MW.Lemmas.ImportJoin MW.Lemmas.RemoveChar MW.Lemmas.RemoveStep
  MW.Lemmas.RemoveBooks

-- ------------------------------------------------------------------ (a) follower activity, then the worker loop

/-- **any follower activity between RemoveWallet and the first removal step, then the worker loop**: from a store that
    follows chain `X` with `w` flagged (`FJ`: extensions and reorganisations after the flag are allowed), the removal
    steps, however many database transactions they take, end in C01's invariant for the table without `w` -/
theorem flagged_run_projects {limit : Nat} {c : Ctx} {w : Wid} {addrs : List Addr} {own' : Own} {X : List Block}
    {s s' : Store} {ws' : List Wid} {n : Nat}
    (hFJ : FJ c w s X) (hO : OwnMinus c.own own' w) (hman : ∀ a, addrs.contains a = isW c.own w a) (hne : addrs ≠ [])
    (hKN : KeysNodup c.own) (hV : ChainValid c.own X) (hH : HeightsOK X)
    (hkn : ∀ x ∈ X, AMap.get c.node.known x.id = some x)
    (hn : KeysNodup s.credits) (hp : PendOK addrs s X) (hws : ∀ x ∈ ws', x ∈ c.wallets)
    (hrun : run limit c w addrs n s = .done s') : Inv { c with own := own', wallets := ws' } s' X := by
  have H : RemHyp c w addrs own' X := ⟨hO, hman, hne, hV, hH, hkn⟩
  have hnr := fj_notReady hFJ c.wallets
  obtain ⟨k, hk, hS, _, _, _⟩ := hFJ
  exact run_projects_U limit H (upperOK_join H hKN hk) ws' hws n (scanJS_to_midU H hKN hk hS hnr hn hp) hrun

-- ------------------------------------------------------------------ congruence: the context's node, the pending side

/-- `ScanJS` reads the parameters, the keystore table and the wallet list of the context only -/
theorem scanJS_ctx {c c' : Ctx} {w : Wid} {s : Store} {X : List Block} {k : Nat} (hp : c'.p = c.p) (ho : c'.own = c.own)
    (hw : c'.wallets = c.wallets) (h : ScanJS c w s X k) : ScanJS c' w s X k := by
  obtain ⟨p, own, ws, nd⟩ := c
  obtain ⟨p', own'', ws'', nd'⟩ := c'
  simp only at hp ho hw
  subst hp ho hw
  exact ⟨h.agree, h.blocks, h.txpos, h.bal, h.balR, h.sync, h.syncedTo⟩

theorem fj_ctx {c c' : Ctx} {w : Wid} {s : Store} {X : List Block} (hp : c'.p = c.p) (ho : c'.own = c.own)
    (hw : c'.wallets = c.wallets) (h : FJ c w s X) : FJ c' w s X := by
  obtain ⟨k, hk, hS, hst, hAR, hne⟩ := h
  refine ⟨k, hk, scanJS_ctx hp ho hw hS, hst, ?_, ?_⟩
  · rw [ho, hw]; exact hAR
  · rw [hw]; exact hne

/-- `ScanJS` reads the mined buckets, the balances, the sync table and the status only -/
theorem scanJS_congr {c : Ctx} {w : Wid} {s s' : Store} {X : List Block} {k : Nat} (h : ScanJS c w s X k)
    (m : MinedEq s s') : ScanJS c w s' X k := by
  have hrec : hasRec s' = hasRec s := by funext key; unfold hasRec; rw [m.txrecs]
  refine ⟨⟨?_, ?_, ?_, ?_, ?_⟩, ?_, ?_, ?_, ?_, ?_, ?_⟩
  · intro w' tx idx; rw [m.unspent]; exact h.agree.unspent w' tx idx
  · intro key; rw [m.credits]; exact h.agree.credits key
  · intro key; rw [m.debits]; exact h.agree.debits key
  · intro key; rw [m.game]; exact h.agree.game key
  · intro key; rw [m.txrecs]; exact h.agree.txrecs key
  · intro hh; show AMap.get s'.blocks hh = blockRecOf (hasRec s') X hh; rw [m.blocks, hrec]; exact h.blocks hh
  · intro key loc hl; rw [m.txrecs] at hl; exact h.txpos key loc hl
  · rw [m.balance]; exact h.bal
  · intro w' hw' hr; rw [m.balance]; rw [readyWallets_congr m.status] at hr; exact h.balR w' hw' hr
  · intro hh; rw [m.sync]; exact h.sync hh
  · rw [m.syncedTo]; exact h.syncedTo

theorem fj_congr {c : Ctx} {w : Wid} {s s' : Store} {X : List Block} (h : FJ c w s X) (m : MinedEq s s') :
    FJ c w s' X := by
  obtain ⟨k, hk, hS, hst, hAR, hne⟩ := h
  refine ⟨k, hk, scanJS_congr hS m, by rw [m.status]; exact hst, ?_, ?_⟩
  · rw [readyWallets_congr m.status]; exact hAR
  · rw [readyWallets_congr m.status]; exact hne

/-- the unconfirmed path writes pending buckets only -/
theorem minedEq_recvTx (c : Ctx) (s : Store) (v : Vol) (t : Tx) : MinedEq s (recvTx c s v t).1 := by
  have h := MW.Lemmas.PendHist.recvTx_mined c s v t
  simp only [MW.Lemmas.LedgerPending.minedOf, Prod.mk.injEq] at h
  obtain ⟨h1, h2, h3, h4, h5, h6, h7, h8, h9, h10, h11⟩ := h
  exact ⟨h1, h2, h3, h4, h5, h6, h7, h8, h9, h10, h11⟩

theorem recvTx_best (c : Ctx) (s : Store) (v : Vol) (t : Tx) : (recvTx c s v t).2.1.best = v.best := by
  unfold recvTx
  split
  · rfl
  · dsimp only
    split
    · rfl
    · rfl
    · split <;> rfl

-- ------------------------------------------------------------------ (b) the two phases

/-- the standing hypotheses of a removal: `own'` is the keystore table without `w`, `addrs` are exactly the script hashes
    `w` manages -/
structure Static (c : Ctx) (w : Wid) (addrs : List Addr) (own' : Own) : Prop where
  minus : OwnMinus c.own own' w
  managed : ∀ a, addrs.contains a = isW c.own w a
  ne : addrs ≠ []
  keys : KeysNodup c.own

/-- what a state of a history knows about the chain the follower was last told about -/
structure ChainFacts (c : Ctx) (G : Block) (x : ISt) : Prop where
  best : x.v.best = tipMeta x.node.chain
  fin : x.fin = false
  good : GoodChain x.node.chain
  valid : ChainValid c.own x.node.chain
  genesis : x.node.chain[0]? = some G
  known : ∀ y ∈ x.node.chain, AMap.get x.node.known y.id = some y

/-- **phase 1** — no removal step has run yet: the store follows the chain with `w` flagged -/
structure Phase1 (c : Ctx) (w : Wid) (G : Block) (x : ISt) : Prop where
  fj : FJ { c with node := x.node } w x.s x.node.chain
  nodup : KeysNodup x.s.credits
  cf : ChainFacts c G x

/-- the real store `s` is the ghost store `g` minus some credits of `ads`, some debits and some tx records: the
    id-keyed buckets and the sync table are identical (field for field `MW.Lemmas.RemoveSim.Sub`) -/
structure SubG (ads : List Addr) (g s : Store) : Prop where
  unspent : s.unspent = g.unspent
  game : s.game = g.game
  balance : s.balance = g.balance
  sync : s.sync = g.sync
  syncedTo : s.syncedTo = g.syncedTo
  status : s.status = g.status
  addrs : s.addrs = g.addrs
  credits : ∀ k, AMap.get s.credits k = AMap.get g.credits k ∨
    (AMap.get s.credits k = none ∧ ∃ cr, AMap.get g.credits k = some cr ∧ ads.contains cr.sh = true)
  debits : ∀ k, AMap.get s.debits k = AMap.get g.debits k ∨ AMap.get s.debits k = none
  txrecs : ∀ k, AMap.get s.txrecs k = AMap.get g.txrecs k ∨ AMap.get s.txrecs k = none

theorem SubG.refl (ads : List Addr) (s : Store) : SubG ads s s :=
  ⟨rfl, rfl, rfl, rfl, rfl, rfl, rfl, fun _ => Or.inl rfl, fun _ => Or.inl rfl, fun _ => Or.inl rfl⟩

/-- the ghost store of a removal in progress: the store as it would be without the removal steps so far — it follows
    `node`'s chain with `w` flagged at ghost height `k` -/
structure GhostOK (c : Ctx) (w : Wid) (node : Node) (g : Store) (k : Nat) : Prop where
  len : k + 1 ≤ node.chain.length
  scan : ScanJS { c with node := node } w g node.chain k
  flag : AMap.get g.status w = some ⟨none, true⟩
  allReady : AllReady (ownR c.own w) (readyWallets g c.wallets)
  nonempty : (readyWallets g c.wallets).isEmpty = false
  nodup : KeysNodup g.credits

/-- **phase 2** — removal in progress: a ghost store `g` follows the chain with `w` flagged at ghost height `k`, the real
    store is `g` minus some records of `w` and satisfies the in-progress invariant relative to the joined book -/
def Phase2 (c : Ctx) (w : Wid) (addrs : List Addr) (own' : Own) (G : Block) (x : ISt) : Prop :=
  ∃ g k, GhostOK c w x.node g k ∧ SubG addrs g x.s ∧
    MidC { c with node := x.node } w addrs own' x.s x.node.chain
      (joinBookK { c with node := x.node } w own' x.node.chain k) ∧
    ChainFacts c G x

theorem remHyp_of {c : Ctx} {w : Wid} {addrs : List Addr} {own' : Own} {G : Block} {x : ISt}
    (hS : Static c w addrs own') (hcf : ChainFacts c G x) :
    RemHyp { c with node := x.node } w addrs own' x.node.chain :=
  ⟨hS.minus, hS.managed, hS.ne, hcf.valid, hcf.good.heights, hcf.known⟩

-- ------------------------------------------------------------------ (c) the events

section
variable {limit : Nat} {c : Ctx} {w : Wid} {addrs : List Addr} {own' : Own} {G : Block} {x x' : ISt}

theorem istep_rem (h : istep limit c w addrs x .rem = some x') :
    x.fin = false ∧ ∃ o, removeStep limit { c with node := x.node } w addrs x.s = some o ∧
      x' = { x with s := o.s, v := removeMempool x.v o.removedTx, fin := o.finish } := by
  simp only [istep] at h
  split at h
  · cases h
  · rename_i hf
    split at h
    · cases h
    · rename_i o ho
      injection h with h
      exact ⟨by simpa using hf, o, ho, h.symm⟩

theorem istep_recv {t : Tx} (h : istep limit c w addrs x (.recv t) = some x') :
    x' = { x with s := (recvTx { c with node := x.node } x.s x.v t).1,
                  v := (recvTx { c with node := x.node } x.s x.v t).2.1 } := by
  simp only [istep] at h
  split at h
  · cases h
  · split at h
    · injection h with h; exact h.symm
    · cases h

theorem istep_restart {v : Vol} (h : istep limit c w addrs x (.restart v) = some x') : x' = { x with v := v } := by
  simp only [istep] at h
  split at h
  · cases h
  · injection h with h; exact h.symm

/-- **a tip notification before the first removal step** (extension or reorganisation of any depth): the database
    transaction succeeds and the store follows the announced chain, `w` still flagged -/
theorem phase1_notify {n : Node} {b : Block} (hKN : KeysNodup c.own) (hP : Phase1 c w G x)
    (hN : NodeOK c.own G x.node.known n b) (hinj : IdInj (x.node.chain ++ n.chain))
    (hg0 : b.height = 0 → b.prev ≠ x.v.best.hash) :
    ∃ x', istep limit c w addrs x (.notify n b) = some x' ∧ Phase1 c w G x' := by
  have hne : n.chain ≠ [] := hN.good.nonempty
  have hlen : n.chain.length ≠ 0 := fun h => hne (List.eq_nil_of_length_eq_zero h)
  have hlast : n.chain[n.chain.length - 1]? = some b := by rw [← List.getLast?_eq_getElem?]; exact hN.tip
  have hbh : b.height = n.chain.length - 1 := hN.good.heights _ _ hlast
  have hb : n.chain[b.height]? = some b := by rw [hbh]; exact hlast
  have htake : n.chain.take (b.height + 1) = n.chain := List.take_of_length_le (by omega)
  have hI : FJ { c with node := n } w x.s x.node.chain :=
    fj_ctx (c := { c with node := x.node }) rfl rfl rfl hP.fj
  obtain ⟨s', v', hpb, hFJ', hv'⟩ := fj_processBlock (c := { c with node := n }) hKN hN.good hP.cf.good
    (by rw [hP.cf.genesis]; exact hN.genesis.symm) hinj hN.valid hP.cf.valid
    (fun y hy => hN.grows _ _ (hP.cf.known y hy)) hI hb hP.cf.best (by rw [← hP.cf.best]; exact hg0)
  rw [htake] at hFJ' hv'
  have hn' : KeysNodup s'.credits := by
    have := MW.Lemmas.LedgerWFCred.credNodup_processBlock (c := { c with node := n }) (v := x.v) (b := b) hP.nodup
    rw [hpb] at this; exact this
  refine ⟨{ x with s := s', v := v', node := n }, ?_, ⟨hFJ', hn', ⟨hv', hP.cf.fin, hN.good, hN.valid, hN.genesis, hN.known⟩⟩⟩
  simp only [istep, hP.cf.fin, hpb, Bool.false_eq_true, if_false, if_true]

/-- **an unconfirmed transaction before the first removal step**, whatever the wallet answers -/
theorem phase1_recv {t : Tx} (hP : Phase1 c w G x) (h : istep limit c w addrs x (.recv t) = some x') :
    Phase1 c w G x' := by
  rw [istep_recv h]
  have m := minedEq_recvTx { c with node := x.node } x.s x.v t
  refine ⟨fj_congr hP.fj m, ?_, ⟨?_, hP.cf.fin, hP.cf.good, hP.cf.valid, hP.cf.genesis, hP.cf.known⟩⟩
  · show KeysNodup (recvTx _ x.s x.v t).1.credits
    rw [m.credits]; exact hP.nodup
  · show (recvTx _ x.s x.v t).2.1.best = _
    rw [recvTx_best]; exact hP.cf.best

/-- **an unconfirmed transaction between two removal steps**: no mined bucket changes, the ghost stays -/
theorem phase2_recv {t : Tx} (hP : Phase2 c w addrs own' G x) (h : istep limit c w addrs x (.recv t) = some x') :
    Phase2 c w addrs own' G x' := by
  rw [istep_recv h]
  obtain ⟨g, k, hG, hSub, hM, hcf⟩ := hP
  have m := minedEq_recvTx { c with node := x.node } x.s x.v t
  refine ⟨g, k, hG, ?_, ?_, ⟨?_, hcf.fin, hcf.good, hcf.valid, hcf.genesis, hcf.known⟩⟩
  · refine ⟨m.unspent.trans hSub.unspent, m.game.trans hSub.game, m.balance.trans hSub.balance,
      m.sync.trans hSub.sync, m.syncedTo.trans hSub.syncedTo, m.status.trans hSub.status, m.addrs.trans hSub.addrs,
      ?_, ?_, ?_⟩
    · intro key; show AMap.get (recvTx _ x.s x.v t).1.credits key = _ ∨ (AMap.get (recvTx _ x.s x.v t).1.credits key = none ∧ _)
      rw [m.credits]; exact hSub.credits key
    · intro key; show AMap.get (recvTx _ x.s x.v t).1.debits key = _ ∨ AMap.get (recvTx _ x.s x.v t).1.debits key = none
      rw [m.debits]; exact hSub.debits key
    · intro key; show AMap.get (recvTx _ x.s x.v t).1.txrecs key = _ ∨ AMap.get (recvTx _ x.s x.v t).1.txrecs key = none
      rw [m.txrecs]; exact hSub.txrecs key
  · exact midC_congr hM m.credits m.debits m.unspent m.game m.txrecs m.blocks m.balance m.sync m.syncedTo m.status
  · show (recvTx _ x.s x.v t).2.1.best = _
    rw [recvTx_best]; exact hcf.best

/-- **a restart of the follower** (its volatile state is rebuilt; the best block it reports is the stored one) -/
theorem phase1_restart {v : Vol} (hv : v.best = x.v.best) (hP : Phase1 c w G x)
    (h : istep limit c w addrs x (.restart v) = some x') : Phase1 c w G x' := by
  rw [istep_restart h]
  exact ⟨hP.fj, hP.nodup, ⟨hv.trans hP.cf.best, hP.cf.fin, hP.cf.good, hP.cf.valid, hP.cf.genesis, hP.cf.known⟩⟩

theorem phase2_restart {v : Vol} (hv : v.best = x.v.best) (hP : Phase2 c w addrs own' G x)
    (h : istep limit c w addrs x (.restart v) = some x') : Phase2 c w addrs own' G x' := by
  rw [istep_restart h]
  obtain ⟨g, k, hG, hSub, hM, hcf⟩ := hP
  exact ⟨g, k, hG, hSub, hM, ⟨hv.trans hcf.best, hcf.fin, hcf.good, hcf.valid, hcf.genesis, hcf.known⟩⟩

theorem phase_restart {v : Vol} (hv : v.best = x.v.best) (h : istep limit c w addrs x (.restart v) = some x') :
    (Phase1 c w G x → Phase1 c w G x') ∧ (Phase2 c w addrs own' G x → Phase2 c w addrs own' G x') :=
  ⟨fun hP => phase1_restart hv hP h, fun hP => phase2_restart hv hP h⟩

/-- one RemoveRelevantTx keeps "the ghost minus some records of `addrs`" -/
theorem subG_step {g s : Store} {o : StepOut} (hne : addrs ≠ []) (hG : SubG addrs g s) (hn : KeysNodup s.credits)
    (h : removeRelevantTx limit c s addrs = some o) : SubG addrs g o.s := by
  obtain ⟨DEL, HOF, ERA, hR⟩ := rrt_char limit c s addrs o hne h
  have hcore := hR.core
  simp only [core, Prod.mk.injEq] at hcore
  obtain ⟨hu, ha, hg, _, hb, hst, hsy, hsyt⟩ := hcore
  refine ⟨hu.trans hG.unspent, hg.trans hG.game, hb.trans hG.balance, hsy.trans hG.sync, hsyt.trans hG.syncedTo,
    hst.trans hG.status, ha.trans hG.addrs, ?_, ?_, ?_⟩
  · intro k
    rw [hR.credits k]
    by_cases hk : k ∈ DEL.map (·.1)
    · rw [if_pos hk]
      obtain ⟨e, he, rfl⟩ := List.mem_map.1 hk
      obtain ⟨hmem, hsh⟩ := hR.sub e he
      have hget : AMap.get s.credits e.1 = some e.2 := (mem_iff_get_of_nodup hn e.1 e.2).1 hmem
      rcases hG.credits e.1 with h1 | ⟨h1, _⟩
      · exact Or.inr ⟨rfl, e.2, by rw [← h1]; exact hget, hsh⟩
      · rw [hget] at h1; cases h1
    · rw [if_neg hk]; exact hG.credits k
  · intro k
    rw [hR.debits k]
    split
    · exact Or.inr rfl
    · exact hG.debits k
  · intro k
    rw [hR.txrecs k]
    split
    · exact Or.inr rfl
    · exact hG.txrecs k

/-- a removal step from the in-progress invariant (relative to the joined book of the ghost height): it either parks
    (`Phase2`, same ghost) or finishes (C01's invariant for the table without `w`) -/
theorem rem_core {g : Store} {k : Nat} (hS : Static c w addrs own') (hcf : ChainFacts c G x)
    (hG : GhostOK c w x.node g k) (hSub : SubG addrs g x.s)
    (hM : MidU { c with node := x.node } w addrs own' x.s x.node.chain
      (joinBookK { c with node := x.node } w own' x.node.chain k))
    (h : istep limit c w addrs x .rem = some x') :
    (x'.fin = false → Phase2 c w addrs own' G x') ∧
    (x'.fin = true → ∀ ws', (∀ y ∈ ws', y ∈ c.wallets) →
      Inv { c with own := own', wallets := ws', node := x'.node } x'.s x'.node.chain) := by
  obtain ⟨_, o, ho, rfl⟩ := istep_rem h
  have H := remHyp_of hS hcf
  have HU := upperOK_join H hS.keys hG.len
  constructor
  · intro hf
    have hf' : o.finish = false := hf
    have hM' := parked_step_U limit H HU hM ho hf'
    have hr := removeStep_parked ho hf'
    exact ⟨g, k, hG, subG_step hS.ne hSub hM.nodup hr, midC_of_midU hM',
      ⟨hcf.best, hf', hcf.good, hcf.valid, hcf.genesis, hcf.known⟩⟩
  · intro hf ws' hws
    have hf' : o.finish = true := hf
    exact finish_projects_U limit H HU hM ws' hws ho hf'

/-- **the first removal step** -/
theorem phase1_rem (hS : Static c w addrs own') (hP : Phase1 c w G x) (hp : PendOK addrs x.s x.node.chain)
    (h : istep limit c w addrs x .rem = some x') :
    (x'.fin = false → Phase2 c w addrs own' G x') ∧
    (x'.fin = true → ∀ ws', (∀ y ∈ ws', y ∈ c.wallets) →
      Inv { c with own := own', wallets := ws', node := x'.node } x'.s x'.node.chain) := by
  have hnr := fj_notReady hP.fj c.wallets
  obtain ⟨k, hk, hSc, hst, hAR, hne⟩ := hP.fj
  have H := remHyp_of hS hP.cf
  exact rem_core hS hP.cf ⟨hk, hSc, hst, hAR, hne, hP.nodup⟩ (SubG.refl addrs x.s)
    (scanJS_to_midU H hS.keys hk hSc hnr hP.nodup hp) h

/-- **a later removal step** -/
theorem phase2_rem (hS : Static c w addrs own') (hP : Phase2 c w addrs own' G x) (hp : PendOK addrs x.s x.node.chain)
    (h : istep limit c w addrs x .rem = some x') :
    (x'.fin = false → Phase2 c w addrs own' G x') ∧
    (x'.fin = true → ∀ ws', (∀ y ∈ ws', y ∈ c.wallets) →
      Inv { c with own := own', wallets := ws', node := x'.node } x'.s x'.node.chain) := by
  obtain ⟨g, k, hG, hSub, hM, hcf⟩ := hP
  exact rem_core hS hcf hG hSub (midU_of_midC hM hp) h

end

-- ------------------------------------------------------------------ (d) histories: block notifications first

/-- is the event a removal step? -/
def IEv.isRem : IEv → Bool
  | .rem => true
  | _ => false

/-- the domain of `remove_after_follower_projects`, threaded along the history (`started`: a removal step has run):
    a removal step needs the pending-side clause of the in-progress invariant; a tip notification — ANY announced node
    state, extension or reorganisation — must come before the first removal step; unconfirmed transactions and restarts
    (the best block the follower reports is the stored one) may come anywhere -/
def DomA (limit : Nat) (c : Ctx) (w : Wid) (addrs : List Addr) (G : Block) : Bool → ISt → List IEv → Prop
  | _, _, [] => True
  | started, x, ev :: evs =>
    (match ev with
      | .rem => PendOK addrs x.s x.node.chain
      | .notify n b => started = false ∧ NodeOK c.own G x.node.known n b ∧ IdInj (x.node.chain ++ n.chain) ∧
          (b.height = 0 → b.prev ≠ x.v.best.hash)
      | .recv _ => True
      | .restart v => v.best = x.v.best) ∧
    ∀ x', istep limit c w addrs x ev = some x' → DomA limit c w addrs G (started || ev.isRem) x' evs

section
variable {limit : Nat} {c : Ctx} {w : Wid} {addrs : List Addr} {own' : Own} {G : Block}

/-- nothing happens after the finishing step -/
theorem irun_fin {x x' : ISt} {evs : List IEv} (hf : x.fin = true) (h : irun limit c w addrs x evs = some x') :
    x' = x := by
  cases evs with
  | nil => simp only [irun, Option.some.injEq] at h; exact h.symm
  | cons ev evs =>
    have hn : istep limit c w addrs x ev = none := by cases ev <;> simp [istep, hf]
    simp [irun, hn] at h

theorem domA_run (hS : Static c w addrs own') (ws' : List Wid) (hws : ∀ y ∈ ws', y ∈ c.wallets) :
    ∀ (evs : List IEv) (started : Bool) (x xe : ISt),
      (started = false → Phase1 c w G x) → (started = true → Phase2 c w addrs own' G x) →
      DomA limit c w addrs G started x evs → irun limit c w addrs x evs = some xe → xe.fin = true →
      Inv { c with own := own', wallets := ws', node := xe.node } xe.s xe.node.chain := by
  intro evs
  induction evs with
  | nil =>
    intro started x xe h1 h2 _ h hfin
    simp only [irun, Option.some.injEq] at h
    subst h
    exfalso
    cases started with
    | false => have := (h1 rfl).cf.fin; rw [hfin] at this; cases this
    | true =>
      obtain ⟨_, _, _, _, _, hcf⟩ := h2 rfl
      have := hcf.fin; rw [hfin] at this; cases this
  | cons ev evs ih =>
    intro started x xe h1 h2 hD h hfin
    obtain ⟨hev, hdom⟩ := hD
    simp only [irun] at h
    cases hs : istep limit c w addrs x ev with
    | none => rw [hs] at h; cases h
    | some x1 =>
      rw [hs] at h
      have hdom' := hdom x1 hs
      cases ev with
      | rem =>
        have hcore : (x1.fin = false → Phase2 c w addrs own' G x1) ∧
            (x1.fin = true → ∀ ws', (∀ y ∈ ws', y ∈ c.wallets) →
              Inv { c with own := own', wallets := ws', node := x1.node } x1.s x1.node.chain) := by
          cases started with
          | false => exact phase1_rem hS (h1 rfl) hev hs
          | true => exact phase2_rem hS (h2 rfl) hev hs
        cases hf1 : x1.fin with
        | false =>
          have hd : DomA limit c w addrs G true x1 evs := by
            cases started <;> exact hdom'
          exact ih true x1 xe (fun h => by cases h) (fun _ => hcore.1 hf1) hd h hfin
        | true =>
          have := irun_fin hf1 h
          subst this
          exact hcore.2 hf1 ws' hws
      | notify n b =>
        obtain ⟨hst, hN, hinj, hg0⟩ := hev
        subst hst
        obtain ⟨x1', hs', hP'⟩ := phase1_notify (limit := limit) (addrs := addrs) hS.keys (h1 rfl) hN hinj hg0
        rw [hs] at hs'
        injection hs' with hs'
        subst hs'
        exact ih false x1 xe (fun _ => hP') (fun h => by cases h) hdom' h hfin
      | recv t =>
        cases started with
        | false => exact ih false x1 xe (fun _ => phase1_recv (h1 rfl) hs) (fun h => by cases h) hdom' h hfin
        | true => exact ih true x1 xe (fun h => by cases h) (fun _ => phase2_recv (h2 rfl) hs) hdom' h hfin
      | restart v =>
        cases started with
        | false => exact ih false x1 xe (fun _ => phase1_restart hev (h1 rfl) hs) (fun h => by cases h) hdom' h hfin
        | true => exact ih true x1 xe (fun h => by cases h) (fun _ => phase2_restart hev (h2 rfl) hs) hdom' h hfin

/-- **the follower first, then the removal steps**: from a store that follows the chain with `w` flagged, any history
    inside `DomA` — tip notifications for ANY announced node states (extensions, reorganisations) before the first
    removal step, unconfirmed transactions and restarts anywhere, any number of removal steps — that ends with the
    finishing step leaves C01's invariant for the table without `w`, on the chain the follower was last told about -/
theorem remove_after_follower_projects {x0 x : ISt} {evs : List IEv} {ws' : List Wid}
    (hP : Phase1 c w G x0) (hS : Static c w addrs own') (hD : DomA limit c w addrs G false x0 evs)
    (hrun : irun limit c w addrs x0 evs = some x) (hfin : x.fin = true) (hws : ∀ y ∈ ws', y ∈ c.wallets) :
    Inv { c with own := own', wallets := ws', node := x.node } x.s x.node.chain :=
  domA_run hS ws' hws evs false x0 x (fun _ => hP) (fun h => by cases h) hD hrun hfin

/-- **the hypotheses of `InterleavedProjects` give `Phase1`** — with two more: `hbalw` (C01's `Inv.bal` speaks of READY
    wallets only; the flagged wallet's own balance entry is still its ledger total: `inv_flag_to_fj`) and `hrne` (some
    wallet is ready — otherwise the follower skips blocks altogether) -/
theorem phase1_of_inv {x0 : ISt} (hKN : KeysNodup c.own) (H : RemHyp c w addrs own' c.node.chain)
    (hg : GoodChain c.node.chain) (hgen : c.node.chain[0]? = some G)
    (hnode : x0.node = c.node) (hfin : x0.fin = false) (hbest : x0.v.best = tipMeta c.node.chain)
    (hI : Inv c x0.s c.node.chain) (hn : KeysNodup x0.s.credits)
    (hflag : AMap.get x0.s.status w = some ⟨none, true⟩)
    (hothers : ∀ a w' ch, AMap.get c.own a = some (w', ch) → w' ≠ w →
      (readyWallets x0.s c.wallets).contains w' = true)
    (hbalw : AMap.get x0.s.balance w = some (totalU (bookOf c.p c.own c.node.chain).L w))
    (hrne : (readyWallets x0.s c.wallets).isEmpty = false) : Phase1 c w G x0 := by
  obtain ⟨s, v, node, fin⟩ := x0
  simp only at hnode hfin hbest hI hn hflag hothers hbalw hrne
  subst hnode
  have hAR : AllReady (ownR c.own w) (readyWallets s c.wallets) := by
    intro a w' ch ha
    have hsub := ownR_sub hKN w a
    rw [ha] at hsub
    cases hga : AMap.get c.own a with
    | none => rw [hga] at hsub; cases hsub
    | some e =>
      rw [hga] at hsub
      by_cases hx : e.1 ≠ w
      · have hd : decide (e.1 ≠ w) = true := decide_eq_true hx
        simp only [Option.filter, hd, if_true] at hsub
        have hx' : e = (w', ch) := (Option.some.inj hsub).symm
        subst hx'
        exact hothers a w' ch hga hx
      · simp [Option.filter, hx] at hsub
  exact ⟨fj_ctx (c := c) rfl rfl rfl (inv_to_fj hKN hI H.valid H.heights hg.nonempty hflag hbalw hAR hrne), hn,
    ⟨hbest, hfin, hg, H.valid, hgen, H.known⟩⟩

end

-- ------------------------------------------------------------------ `PendOK` by evaluation

/-- the pending-side clause as a check (for concrete histories) -/
def pendOKb (addrs : List Addr) (s : Store) (chain : List Block) : Bool :=
  s.pendCred.all (fun e => addrs.contains e.2.sh || !(idsOf (occs chain)).contains e.1.1)

theorem pendOK_of_check {addrs : List Addr} {s : Store} {chain : List Block} (h : pendOKb addrs s chain = true) :
    PendOK addrs s chain := by
  intro e he hsh hmem
  have := List.all_eq_true.1 h e he
  rw [hsh, Bool.false_or, List.contains_iff_mem.2 hmem] at this
  cases this

end MW.Lemmas.RemoveInterleave
