/-
  C08, removal INTERLEAVED with follower events — the two-phase invariant of a history.
    `flagged_run_projects`  any follower activity between RemoveWallet and the first removal step (`FJ`), then the worker
                            loop: C01's invariant for the table without the wallet
    `Phase1`   no removal step has run yet: the store follows the chain with `w` flagged (`FJ`)
    `Phase2`   removal in progress: a GHOST store `g` (the store as it would be without the removal steps so far) follows
               the chain with `w` flagged, the real store is the ghost minus some records of `w` (`SubG`) and satisfies
               the in-progress invariant `MidC` relative to the joined book of the ghost height
    `phase1_notify` `phase1_recv` `phase2_recv` `phase1_restart` `phase2_restart` `phase1_rem` `phase2_rem`
               the events keep the phases (a finishing removal step ends in C01's invariant without the wallet)
    `DomA`     histories whose block notifications all come before the first removal step
    `remove_after_follower_projects`   … end in C01's invariant for the table without the wallet, on the chain the
               follower was last told about
    `phase1_of_inv`   the hypotheses of `InterleavedProjects` (+ the flagged wallet's own balance entry, + some other
               wallet ready) give `Phase1`
-/
import MW.Lemmas.RemoveInterleave
import MW.Lemmas.RemoveFlagged
import MW.Lemmas.RemoveJoin
import MW.Lemmas.RemoveGlue
import MW.Lemmas.LedgerWFCred2
import MW.Lemmas.PendHistRun
namespace MW.Lemmas.RemoveInterleave
open MW MW.Model.Ledger MW.Model.Remove MW.Spec.Chain MW.Spec.Books MW.Lemmas.Ledger MW.Lemmas.RemoveProj
  MW.Lemmas.RemoveInv MW.Lemmas.RemoveMain MW.Lemmas.RemoveUpper MW.Lemmas.RemoveJoin MW.Lemmas.RemoveGlue
  MW.Lemmas.RemoveFlagged MW.Lemmas.ImportReorg MW.Lemmas.ImportJoin MW.Lemmas.RemoveChar MW.Lemmas.RemoveStep

-- ------------------------------------------------------------------ (a) follower activity, then the worker loop

/-- **any follower activity between RemoveWallet and the first removal step, then the worker loop**: from a store that
    follows chain `X` with `w` flagged (`FJ`: extensions and reorganisations after the flag are allowed), the removal
    steps, however many database transactions they take, end in C01's invariant for the table without `w` -/
theorem flagged_run_projects {limit : Nat} {c : Ctx} {w : Wid} {addrs : List Addr} {own' : Own} {X : List Block}
    {s s' : Store} {ws' : List Wid} {n : Nat}
    (hFJ : FJ c w s X) (hO : OwnMinus c.own own' w) (hman : ∀ a, addrs.contains a = isW c.own w a) (hne : addrs ≠ [])
    (hKN : KeysNodup c.own) (hV : ChainValid c.own X) (hH : HeightsOK X)
    (hkn : ∀ x ∈ X, AMap.get c.node.known x.id = some x)
    (hn : KeysNodup s.credits) (hp : PendOK addrs s X) (hws : ∀ x ∈ ws', x ∈ c.wallets)
    (hrun : run limit c w addrs n s = .done s') : Inv { c with own := own', wallets := ws' } s' X := by
  have H : RemHyp c w addrs own' X := ⟨hO, hman, hne, hV, hH, hkn⟩
  have hnr := fj_notReady hFJ c.wallets
  obtain ⟨k, hk, hS, _, _, _⟩ := hFJ
  exact run_projects_U limit H (upperOK_join H hKN hk) ws' hws n (scanJS_to_midU H hKN hk hS hnr hn hp) hrun

end MW.Lemmas.RemoveInterleave
