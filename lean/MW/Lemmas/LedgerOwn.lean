/-
  The keystore view `own` GROWS when a wallet issues a new address. Issuing an address `a` that the chain
  does not pay (`addrUsed chain a = false`) changes nothing: not the books of the chain (`bookOf`), not
  the spec ledger (`ledgerOf`), not the chain-validity hypothesis (`ChainValid`), not the invariant (`Inv`).

  General form (`*_own_congr`): everything the spec reads of `own` is `ownerOf own o` for outputs `o` of the
  transactions of the chain, so two keystore views that agree on those outputs give the same results.
  `put` form (`*_put_own`): `AMap.put own a (w, ch)` agrees with `own` on every output that does not pay `a`.
  None of this needs `AMap.get own a = none`: an address the chain never pays is never looked up.
-/
import MW.Lemmas.LedgerChar4
import MW.Lemmas.LedgerReorg3
namespace MW.Lemmas.Ledger
open MW MW.Model.Ledger MW.Spec.Chain MW.Spec.Books

-- ------------------------------------------------------------------ 1. ownerOf

theorem ownerOf_put_ne {own : Own} {a : Addr} {w : Wid} {ch : Bool} {o : Out} (h : o.addr ≠ a ∨ o.cls = .raw) :
    ownerOf (AMap.put own a (w, ch)) o = ownerOf own o := by
  unfold ownerOf
  by_cases hr : o.cls = .raw
  · simp [hr]
  · have hne : ¬ a = o.addr := fun e => (h.resolve_right hr) e.symm
    simp only [hr, if_false]
    rw [AMap.get_put, if_neg hne]

-- ------------------------------------------------------------------ 2. PaysNot

/-- no transaction of `ocs` pays address `a` (with a recognised template) -/
def PaysNot (ocs : List Occ) (a : Addr) : Prop := ∀ oc ∈ ocs, ∀ o ∈ oc.t.outs, o.addr = a → o.cls = .raw

/-- the two keystore views give every output of the transactions of `ocs` the same owner -/
def OwnAgree (own' own : Own) (ocs : List Occ) : Prop := ∀ oc ∈ ocs, ∀ o ∈ oc.t.outs, ownerOf own' o = ownerOf own o

theorem paysNot_nil (a : Addr) : PaysNot [] a := fun _ h => nomatch h

theorem paysNot_append {P Q : List Occ} {a : Addr} : PaysNot (P ++ Q) a ↔ PaysNot P a ∧ PaysNot Q a := by
  unfold PaysNot
  constructor
  · intro h
    exact ⟨fun oc hm => h oc (List.mem_append_left _ hm), fun oc hm => h oc (List.mem_append_right _ hm)⟩
  · rintro ⟨h1, h2⟩ oc hm
    rcases List.mem_append.1 hm with hm | hm
    · exact h1 oc hm
    · exact h2 oc hm

theorem ownAgree_append {own' own : Own} {P Q : List Occ} :
    OwnAgree own' own (P ++ Q) ↔ OwnAgree own' own P ∧ OwnAgree own' own Q := by
  unfold OwnAgree
  constructor
  · intro h
    exact ⟨fun oc hm => h oc (List.mem_append_left _ hm), fun oc hm => h oc (List.mem_append_right _ hm)⟩
  · rintro ⟨h1, h2⟩ oc hm
    rcases List.mem_append.1 hm with hm | hm
    · exact h1 oc hm
    · exact h2 oc hm

theorem ownAgree_put_of_paysNot {own : Own} {ocs : List Occ} {a : Addr} (w : Wid) (ch : Bool) (h : PaysNot ocs a) :
    OwnAgree (AMap.put own a (w, ch)) own ocs := by
  intro oc hoc o ho
  apply ownerOf_put_ne
  by_cases hr : o.cls = .raw
  · exact Or.inr hr
  · exact Or.inl (fun e => hr (h oc hoc o ho e))

theorem mem_txs_of_mem_occs {chain : List Block} {oc : Occ} (h : oc ∈ occs chain) : ∃ b ∈ chain, oc.t ∈ b.txs := by
  obtain ⟨b, hb, hm⟩ := mem_occs.1 h
  unfold occsOfBlock at hm
  obtain ⟨m, hm1, _, _⟩ := mem_occsFrom.1 hm
  exact ⟨b, hb, List.mem_of_getElem? hm1⟩

theorem paysNot_of_addrUsed {chain : List Block} {a : Addr} (h : addrUsed chain a = false) : PaysNot (occs chain) a := by
  intro oc hoc o ho ha
  obtain ⟨b, hb, ht⟩ := mem_txs_of_mem_occs hoc
  unfold addrUsed at h
  rw [List.any_eq_false] at h
  have h1 := h b hb
  simp only [Bool.not_eq_true] at h1
  rw [List.any_eq_false] at h1
  have h2 := h1 oc.t ht
  simp only [Bool.not_eq_true] at h2
  rw [List.any_eq_false] at h2
  have h3 := h2 o ho
  simpa [ha] using h3

/-- conversely: the used flag is exactly "some transaction of the chain pays the address" -/
theorem addrUsed_false_iff_paysNot {chain : List Block} {a : Addr} : addrUsed chain a = false ↔ PaysNot (occs chain) a := by
  refine ⟨paysNot_of_addrUsed, ?_⟩
  intro h
  unfold addrUsed
  rw [List.any_eq_false]
  intro b hb
  simp only [Bool.not_eq_true]
  rw [List.any_eq_false]
  intro t ht
  simp only [Bool.not_eq_true]
  rw [List.any_eq_false]
  intro o ho
  obtain ⟨m, hm⟩ := List.getElem?_of_mem ht
  have hoc : (⟨⟨b.height, b.id⟩, 0 + m, t⟩ : Occ) ∈ occs chain :=
    mem_occs.2 ⟨b, hb, by unfold occsOfBlock; exact mem_occsFrom.2 ⟨m, hm, rfl, rfl⟩⟩
  have := h _ hoc o ho
  by_cases ha : o.addr = a
  · simp [this ha]
  · simp [ha]

-- ------------------------------------------------------------------ 3. the books

theorem createFold_own_congr (p : Params) {own' own : Own} (t : Tx) (bm : BlockMeta) (os : List Out)
    (hO : ∀ o ∈ os, ownerOf own' o = ownerOf own o) (i : Nat) (B : Book) :
    foldIdx (createB p own' t bm) os i B = foldIdx (createB p own t bm) os i B := by
  induction os generalizing i B with
  | nil => rfl
  | cons o os ih =>
    rw [foldIdx_cons, foldIdx_cons]
    have h1 : createB p own' t bm B i o = createB p own t bm B i o := by
      unfold createB; rw [hO o (List.mem_cons_self ..)]
    rw [h1]
    exact ih (fun o' ho' => hO o' (List.mem_cons_of_mem _ ho')) _ _

theorem depositFold_own_congr {own' own : Own} (t : Tx) (bm : BlockMeta) (os : List Out)
    (hO : ∀ o ∈ os, ownerOf own' o = ownerOf own o) (i : Nat) (B : Book) :
    foldIdx (depositB own' t bm) os i B = foldIdx (depositB own t bm) os i B := by
  induction os generalizing i B with
  | nil => rfl
  | cons o os ih =>
    rw [foldIdx_cons, foldIdx_cons]
    have h1 : depositB own' t bm B i o = depositB own t bm B i o := by
      unfold depositB; rw [hO o (List.mem_cons_self ..)]
    rw [h1]
    exact ih (fun o' ho' => hO o' (List.mem_cons_of_mem _ ho')) _ _

theorem any_owner_own_congr {own' own : Own} (f : Out → Bool) (os : List Out)
    (hO : ∀ o ∈ os, ownerOf own' o = ownerOf own o) :
    os.any (fun o => (ownerOf own' o).isSome && f o) = os.any (fun o => (ownerOf own o).isSome && f o) := by
  induction os with
  | nil => rfl
  | cons o os ih =>
    rw [List.any_cons, List.any_cons, hO o (List.mem_cons_self ..),
      ih (fun o' ho' => hO o' (List.mem_cons_of_mem _ ho'))]

theorem touches_own_congr {own' own : Own} (B : Book) (t : Tx)
    (hO : ∀ o ∈ t.outs, ownerOf own' o = ownerOf own o) : touches own' B t = touches own B t := by
  unfold touches
  have := any_owner_own_congr (fun _ => true) t.outs hO
  simp only [Bool.and_true] at this
  rw [this]

theorem applyOcc_own_congr (p : Params) {own' own : Own} (B : Book) (oc : Occ)
    (hO : ∀ o ∈ oc.t.outs, ownerOf own' o = ownerOf own o) : applyOcc p own' B oc = applyOcc p own B oc := by
  unfold applyOcc
  simp only [touches_own_congr B oc.t hO, createFold_own_congr p oc.t oc.bm oc.t.outs hO,
    depositFold_own_congr oc.t oc.bm oc.t.outs hO]

theorem applyOcc_put_own {p : Params} {own : Own} {a : Addr} {w : Wid} {ch : Bool} {B : Book} {oc : Occ}
    (h : ∀ o ∈ oc.t.outs, o.addr = a → o.cls = .raw) :
    applyOcc p (AMap.put own a (w, ch)) B oc = applyOcc p own B oc := by
  apply applyOcc_own_congr
  intro o ho
  apply ownerOf_put_ne
  by_cases hr : o.cls = .raw
  · exact Or.inr hr
  · exact Or.inl (fun e => hr (h o ho e))

theorem foldl_applyOcc_own_congr (p : Params) {own' own : Own} (ocs : List Occ) (hO : OwnAgree own' own ocs) (B : Book) :
    ocs.foldl (applyOcc p own') B = ocs.foldl (applyOcc p own) B := by
  induction ocs generalizing B with
  | nil => rfl
  | cons oc ocs ih =>
    rw [List.foldl_cons, List.foldl_cons, applyOcc_own_congr p B oc (hO oc (List.mem_cons_self ..))]
    exact ih (fun oc' h' => hO oc' (List.mem_cons_of_mem _ h')) _

theorem foldl_applyOcc_put_own {p : Params} {own : Own} {a : Addr} {w : Wid} {ch : Bool} {ocs : List Occ}
    (h : PaysNot ocs a) (B : Book) :
    ocs.foldl (applyOcc p (AMap.put own a (w, ch))) B = ocs.foldl (applyOcc p own) B :=
  foldl_applyOcc_own_congr p ocs (ownAgree_put_of_paysNot w ch h) B

theorem bookOf_own_congr (p : Params) {own' own : Own} {chain : List Block} (hO : OwnAgree own' own (occs chain)) :
    bookOf p own' chain = bookOf p own chain := by
  unfold bookOf
  exact foldl_applyOcc_own_congr p _ hO _

theorem bookOf_put_own {p : Params} {own : Own} {chain : List Block} {a : Addr} {w : Wid} {ch : Bool}
    (hu : addrUsed chain a = false) : bookOf p (AMap.put own a (w, ch)) chain = bookOf p own chain :=
  bookOf_own_congr p (ownAgree_put_of_paysNot w ch (paysNot_of_addrUsed hu))

-- the spec ledger, directly from Spec/Chain.lean

theorem filterMap_congr_mem {α β : Type} {f g : α → Option β} (l : List α) (h : ∀ x ∈ l, f x = g x) :
    l.filterMap f = l.filterMap g := by
  induction l with
  | nil => rfl
  | cons x l ih =>
    rw [List.filterMap_cons, List.filterMap_cons, h x (List.mem_cons_self ..),
      ih (fun y hy => h y (List.mem_cons_of_mem _ hy))]

theorem ownedOuts_own_congr {own' own : Own} (h : Nat) (t : Tx)
    (hO : ∀ o ∈ t.outs, ownerOf own' o = ownerOf own o) : ownedOuts own' h t = ownedOuts own h t := by
  unfold ownedOuts
  apply filterMap_congr_mem
  rintro ⟨o, i⟩ hm
  have ho : o ∈ t.outs := by
    have := List.mem_zipIdx hm
    simp only [Nat.zero_le, Nat.zero_add, Nat.sub_zero, true_and] at this
    rw [this.2]
    exact List.getElem_mem _
  have he := hO o ho
  unfold ownerOf at he
  by_cases hr : o.cls = .raw
  · simp [hr]
  · simp only [hr, if_false] at he ⊢
    rw [he]

theorem ledgerOf_own_congr {own' own : Own} {chain : List Block} (hO : OwnAgree own' own (occs chain)) :
    ledgerOf own' chain = ledgerOf own chain := by
  have key : ∀ b ∈ chain, ∀ t ∈ b.txs, ∀ o ∈ t.outs, ownerOf own' o = ownerOf own o := by
    intro b hb t ht o ho
    obtain ⟨m, hm⟩ := List.getElem?_of_mem ht
    have hoc : (⟨⟨b.height, b.id⟩, 0 + m, t⟩ : Occ) ∈ occs chain :=
      mem_occs.2 ⟨b, hb, by unfold occsOfBlock; exact mem_occsFrom.2 ⟨m, hm, rfl, rfl⟩⟩
    exact hO _ hoc o ho
  have txs : ∀ (h : Nat) (ts : List Tx), (∀ t ∈ ts, ∀ o ∈ t.outs, ownerOf own' o = ownerOf own o) →
      ∀ l, ts.foldl (applyTx own' h) l = ts.foldl (applyTx own h) l := by
    intro h ts
    induction ts with
    | nil => intros; rfl
    | cons t ts ih =>
      intro hts l
      rw [List.foldl_cons, List.foldl_cons]
      have : applyTx own' h l t = applyTx own h l t := by
        unfold applyTx; rw [ownedOuts_own_congr h t (hts t (List.mem_cons_self ..))]
      rw [this]
      exact ih (fun t' ht' => hts t' (List.mem_cons_of_mem _ ht')) _
  unfold ledgerOf
  generalize ([] : List SCoin) = l
  induction chain generalizing l with
  | nil => rfl
  | cons b bs ih =>
    rw [List.foldl_cons, List.foldl_cons]
    have : applyBlock own' l b = applyBlock own l b := by
      unfold applyBlock; exact txs _ _ (key b (List.mem_cons_self ..)) _
    rw [this]
    refine ih ?_ (fun b' hb' => key b' (List.mem_cons_of_mem _ hb')) _
    intro oc hoc
    apply hO
    unfold occs at hoc ⊢
    rw [List.flatMap_cons]
    exact List.mem_append_right _ hoc

theorem ledgerOf_put_own {own : Own} {chain : List Block} {a : Addr} {w : Wid} {ch : Bool}
    (hu : addrUsed chain a = false) : ledgerOf (AMap.put own a (w, ch)) chain = ledgerOf own chain :=
  ledgerOf_own_congr (ownAgree_put_of_paysNot w ch (paysNot_of_addrUsed hu))

-- ------------------------------------------------------------------ 4. validity

theorem bindingSrc_own_congr {own' own : Own} {P : List Occ} (hP : OwnAgree own' own P) (i : Inp) :
    bindingSrc own' P i = bindingSrc own P i := by
  unfold bindingSrc
  cases hs : srcOut P i.tx i.idx with
  | none => rfl
  | some o =>
    obtain ⟨oc, hoc, _, ho⟩ := srcOut_some_find hs
    simp only
    rw [hP oc hoc o (List.mem_of_getElem? ho)]

theorem occValid_own_congr {own' own : Own} {P : List Occ} {oc : Occ} (h : OwnAgree own' own (P ++ [oc])) :
    OccValid own' P oc ↔ OccValid own P oc := by
  obtain ⟨hP, hoc⟩ := ownAgree_append.1 h
  have hO : ∀ o ∈ oc.t.outs, ownerOf own' o = ownerOf own o := hoc oc (List.mem_singleton.2 rfl)
  have hb : bindingSrc own' P = bindingSrc own P := funext (bindingSrc_own_congr hP)
  unfold OccValid
  rw [hb, any_owner_own_congr (fun o => o.cls.isBinding) oc.t.outs hO]

theorem occValid_put_own {own : Own} {a : Addr} {w : Wid} {ch : Bool} {P : List Occ} {oc : Occ}
    (h : PaysNot (P ++ [oc]) a) : OccValid (AMap.put own a (w, ch)) P oc ↔ OccValid own P oc :=
  occValid_own_congr (ownAgree_put_of_paysNot w ch h)

theorem validFrom_own_congr {own' own : Own} {P rest : List Occ} (h : OwnAgree own' own (P ++ rest)) :
    ValidFrom own' P rest ↔ ValidFrom own P rest := by
  induction rest generalizing P with
  | nil => simp [ValidFrom]
  | cons oc rest ih =>
    have h' : OwnAgree own' own ((P ++ [oc]) ++ rest) := by simpa using h
    unfold ValidFrom
    rw [occValid_own_congr (ownAgree_append.1 h').1, ih h']

theorem validFrom_put_own {own : Own} {a : Addr} {w : Wid} {ch : Bool} {P rest : List Occ}
    (h : PaysNot (P ++ rest) a) : ValidFrom (AMap.put own a (w, ch)) P rest ↔ ValidFrom own P rest :=
  validFrom_own_congr (ownAgree_put_of_paysNot w ch h)

theorem chainValid_own_congr {own' own : Own} {chain : List Block} (hO : OwnAgree own' own (occs chain)) :
    ChainValid own' chain ↔ ChainValid own chain := by
  unfold ChainValid
  exact validFrom_own_congr (by simpa using hO)

theorem chainValid_put_own {own : Own} {chain : List Block} {a : Addr} {w : Wid} {ch : Bool}
    (hu : addrUsed chain a = false) : ChainValid (AMap.put own a (w, ch)) chain ↔ ChainValid own chain :=
  chainValid_own_congr (ownAgree_put_of_paysNot w ch (paysNot_of_addrUsed hu))

-- ------------------------------------------------------------------ 5. the invariant

theorem inv_own_congr {c : Ctx} {own' : Own} {s : Store} {chain : List Block}
    (hO : OwnAgree own' c.own (occs chain)) (hI : Inv c s chain) : Inv { c with own := own' } s chain := by
  have hb : bookOf c.p own' chain = bookOf c.p c.own chain := bookOf_own_congr c.p hO
  refine ⟨?_, ?_, hI.sync, hI.syncedTo⟩
  · show AgreeM s (bookOf c.p own' chain)
    rw [hb]; exact hI.agree
  · intro w' hw'
    show AMap.get s.balance w' = some (totalU (bookOf c.p own' chain).L w')
    rw [hb]; exact hI.bal w' hw'

theorem inv_put_own {c : Ctx} {s : Store} {chain : List Block} {a : Addr} {w : Wid} {ch : Bool}
    (hu : addrUsed chain a = false) (hI : Inv c s chain) :
    Inv { c with own := AMap.put c.own a (w, ch) } s chain :=
  inv_own_congr (ownAgree_put_of_paysNot w ch (paysNot_of_addrUsed hu)) hI

theorem allReady_put_own {own : Own} {a : Addr} {w : Wid} {ch : Bool} {ready : List Wid}
    (h : AllReady own ready) (hw : ready.contains w = true) : AllReady (AMap.put own a (w, ch)) ready := by
  intro a' w' ch' hg
  rw [AMap.get_put] at hg
  by_cases ha : a = a'
  · rw [if_pos ha] at hg
    cases hg
    exact hw
  · rw [if_neg ha] at hg
    exact h a' w' ch' hg

end MW.Lemmas.Ledger
