/-
  C06 deepening (round 3), part 5: `crash_equiv` over histories of the persistence model — node events,
  notifications handled in any interleaving (stale ones, reorganisations), CreateWallet, NewAddress, and process
  crashes at ANY commit boundary (event `crash`, any number, anywhere — quiet or not).
-/
import MW.Lemmas.Deepen3Start
import MW.Lemmas.Deepen3Pend
namespace MW.Lemmas.Deepen3
open MW MW.Model.Ledger MW.Model.Persist MW.Spec.Persist MW.Spec.Chain MW.Spec.Books MW.Lemmas.Ledger
  MW.Lemmas.PersistOp MW.Lemmas.PersistFault MW.Lemmas.PersistCrash

/-- A CRASH keeps the invariant, at every commit boundary: the restarted wallet holds the books of the node's
    whole chain, nothing is queued -/
theorem JQ_crash {st : Static} {G : Block} (E : StaticOK st G) (n : Nat) {x : SysQ} {k : Skel} (hJ : JQ st G x k) :
    JQ st G (stepQ st n true x .crash) k ∧ (stepQ st n true x .crash).queue = [] ∧
    (Model.Persist.crash (envAt st x.chain) n x.P).ok = true := by
  obtain ⟨hc, hks, hkeys, ⟨S, hJS, c, hcm, hSc⟩, hN, hcur, hK⟩ := hJ
  obtain ⟨hI, hv, hS, hAR, hne, hq, hq0, hq1⟩ := hJS
  have hNx : ChainOK (lenv st k.ks) G x.chain := by rw [hc]; exact hN
  obtain ⟨ok, hSI, _⟩ := crash_reaches E hNx n hks hI hS hAR hne
  have hlen : x.chain.length - 1 + 1 = x.chain.length := by have := hNx.good.length_pos; omega
  have htake : x.chain.take (x.chain.length - 1 + 1) = x.chain := by rw [hlen, List.take_length]
  have h1 : stepQ st n true x .crash =
      { x with queue := [], P := (Model.Persist.crash (envAt st x.chain) n x.P).P,
               V := (Model.Persist.crash (envAt st x.chain) n x.P).V } := by
    simp only [stepQ, if_true]
  rw [h1]
  refine ⟨⟨hc, hSI.pks, hSI.vkeys, ⟨x.chain, ⟨?_, ?_, hNx, ?_, ?_, ?_, fun _ => rfl, fun h => absurd rfl h⟩,
      k.chain, hcur, by rw [hc]; exact List.prefix_refl _⟩, hN, hcur, hK.nodupW, hK.nodupA, ?_⟩, rfl, ok⟩
  · have := hSI.inv; rw [htake] at this; exact this
  · have := hSI.best; rw [htake] at this; exact this
  · show AllReady (ownOf k.ks) (readyWallets (Model.Persist.crash (envAt st x.chain) n x.P).P.led (walletsOf k.ks))
    rw [hSI.ready]; exact hAR
  · show (readyWallets (Model.Persist.crash (envAt st x.chain) n x.P).P.led (walletsOf k.ks)).isEmpty = false
    rw [hSI.ready]; exact hne
  · intro b hb; cases hb
  · intro w hw
    show readyB (Model.Persist.crash (envAt st x.chain) n x.P).P.led w = true
    rw [readyB_of_readyWallets hSI.ready w]; exact hK.ready w hw

-- ------------------------------------------------------------------ unconfirmed transactions

theorem minedEq_addUnminedCredits (s s' : Store) (tr : TxRec) (h : addUnminedCredits s tr = .ok s') : MinedEq s s' := by
  unfold addUnminedCredits at h
  simp only [bind, Except.bind, pure, Except.pure] at h
  split at h
  · cases h
  · rename_i s1 hs1
    cases h
    have h1 : MinedEq s s1 := by
      have : ∀ (l : List Rel) (a b : Store), l.foldlM (addUnminedCredit tr) a = .ok b → MinedEq a b := by
        intro l
        induction l with
        | nil => intro a b hab; cases hab; exact MinedEq.refl _
        | cons r l ih =>
          intro a b hab
          rw [List.foldlM_cons] at hab
          simp only [bind, Except.bind] at hab
          split at hab
          · cases hab
          · rename_i a1 ha1
            have hstep : MinedEq a a1 := by
              unfold addUnminedCredit at ha1
              split at ha1
              · cases ha1
              · split at ha1
                · cases ha1
                · cases ha1; exact ⟨rfl, rfl, rfl, rfl, rfl, rfl, rfl, rfl, rfl, rfl, rfl⟩
            exact hstep.trans (ih _ _ hab)
      exact this _ _ _ hs1
    refine h1.trans ?_
    apply minedEq_foldl
    intro s0 rel _
    exact ⟨rfl, rfl, rfl, rfl, rfl, rfl, rfl, rfl, rfl, rfl, rfl⟩

/-- insertMemPoolTx + addUnminedCredits write pending buckets only -/
theorem minedEq_addRelevantUnmined (s s' : Store) (tr : TxRec) (h : addRelevantUnmined s tr = .ok s') : MinedEq s s' := by
  unfold addRelevantUnmined at h
  split at h
  · cases h
  · split at h
    · split at h
      · cases h; exact MinedEq.refl _
      · exact minedEq_addUnminedCredits _ _ _ h
    · dsimp only at h
      have h0 : MinedEq s (insertUnminedInputs { s with pending := AMap.put s.pending tr.tx.id tr.tx } tr) :=
        MinedEq.trans (b := { s with pending := AMap.put s.pending tr.tx.id tr.tx })
          ⟨rfl, rfl, rfl, rfl, rfl, rfl, rfl, rfl, rfl, rfl, rfl⟩ (minedEq_insertUnminedInputs _ tr)
      split at h
      · cases h; exact h0
      · exact h0.trans (minedEq_addUnminedCredits _ _ _ h)

/-- the unconfirmed path writes pending buckets only; the keystore buckets are untouched -/
theorem recvTx_mined (env : Model.Persist.Env) (nR nW : Nat) (tx : Tx) (P : PStore) (V : PVol) :
    (Model.Persist.recvTx env nR nW none tx P V).P.ks = P.ks ∧
    MinedEq P.led (Model.Persist.recvTx env nR nW none tx P V).P.led := by
  unfold Model.Persist.recvTx
  simp only [Bool.false_eq_true, if_false]
  by_cases hm : V.led.mempool.contains tx.id = true
  · rw [if_pos hm]; exact ⟨rfl, MinedEq.refl _⟩
  · rw [if_neg hm]
    cases hf : filterTxRel (ctxOf env V) P.led tx false [] (readyWallets P.led (ctxOf env V).wallets) with
    | error e => exact ⟨rfl, MinedEq.refl _⟩
    | ok o =>
      cases o with
      | none => exact ⟨rfl, MinedEq.refl _⟩
      | some tr =>
        simp only [Option.map]
        rw [run_single_none nW _ (opAddUnmined nW tr) rfl P V]
        cases ha : addRelevantUnmined P.led tr with
        | error e => simp [opAddUnmined, ha]; exact MinedEq.refl _
        | ok s' => simp [opAddUnmined, ha]; exact minedEq_addRelevantUnmined _ _ _ ha

theorem inv_minedEq {c : Ctx} {s s' : Store} {S : List Block} (h : MinedEq s s') (hI : Ledger.Inv c s S) :
    Ledger.Inv c s' S := by
  refine ⟨⟨?_, ?_, ?_, ?_, ?_, ?_⟩, ?_, ?_, ?_⟩
  · intro w tx idx; rw [h.unspent]; exact hI.agree.unspent w tx idx
  · intro k; rw [h.credits]; exact hI.agree.credits k
  · intro k; rw [h.debits]; exact hI.agree.debits k
  · intro k; rw [h.game]; exact hI.agree.game k
  · intro k; rw [h.txrecs]; exact hI.agree.txrecs k
  · intro k; rw [h.blocks]; exact hI.agree.blocks k
  · intro w hw
    rw [h.balance]
    apply hI.bal w
    rw [← readyWallets_congr h.status]; exact hw
  · intro k; rw [h.sync]; exact hI.sync k
  · rw [h.syncedTo]; exact hI.syncedTo

/-- AN UNCONFIRMED TRANSACTION — delivered at any time, new or seen before, relevant or not — keeps the invariant:
    it writes pending buckets (and the volatile seen-set) only -/
theorem JQ_recvTx {st : Static} {G : Block} (n : Nat) (cr : Bool) {x : SysQ} {k : Skel} (tx : Tx) (hJ : JQ st G x k) :
    JQ st G (stepQ st n cr x (.recvTx tx)) k := by
  obtain ⟨hc, hks, hkeys, ⟨S, hJS, c, hcm, hSc⟩, hN, hcur, hK⟩ := hJ
  obtain ⟨hI, hv, hS, hAR, hne, hq, hq0, hq1⟩ := hJS
  obtain ⟨m1, m2⟩ := recvTx_mined (envAt st x.chain) n n tx x.P x.V
  obtain ⟨f1, f2⟩ := recvTx_frame (envAt st x.chain) n n tx x.P x.V
  have hr := readyWallets_congr m2.status
  have h1 : stepQ st n cr x (.recvTx tx) =
      { x with P := (Model.Persist.recvTx (envAt st x.chain) n n none tx x.P x.V).P,
               V := (Model.Persist.recvTx (envAt st x.chain) n n none tx x.P x.V).V } := rfl
  rw [h1]
  refine ⟨hc, m1.trans hks, f2.trans hkeys, ⟨S, ⟨inv_minedEq m2 hI, f1.trans hv, hS, ?_, ?_, hq, hq0, hq1⟩, c, hcm, hSc⟩,
    hN, hcur, hK.nodupW, hK.nodupA, ?_⟩
  · show AllReady (ownOf k.ks) (readyWallets (Model.Persist.recvTx (envAt st x.chain) n n none tx x.P x.V).P.led (walletsOf k.ks))
    rw [hr]; exact hAR
  · show (readyWallets (Model.Persist.recvTx (envAt st x.chain) n n none tx x.P x.V).P.led (walletsOf k.ks)).isEmpty = false
    rw [hr]; exact hne
  · intro w hw
    show readyB (Model.Persist.recvTx (envAt st x.chain) n n none tx x.P x.V).P.led w = true
    rw [readyB_of_readyWallets hr w]; exact hK.ready w hw

/-- EVERY EVENT keeps the invariant, in the crashing run and in the run that never stops -/
theorem JQ_step {st : Static} {G : Block} (E : StaticOK st G) (n : Nat) (cr : Bool) {x : SysQ} {k : Skel} (ev : EvQ)
    (hJ : JQ st G x k) (hok : StepOK st G k ev) : JQ st G (stepQ st n cr x ev) (skStep st k ev) := by
  cases ev with
  | extend b => exact JQ_nodeOrHandle E n cr (.extend b) (.extend b) (Or.inr (Or.inl ⟨b, rfl, rfl⟩)) hJ hok
  | reorgTo m bs => exact JQ_nodeOrHandle E n cr (.reorgTo m bs) (.reorgTo m bs) (Or.inr (Or.inr ⟨m, bs, rfl, rfl⟩)) hJ hok
  | handle => exact JQ_nodeOrHandle E n cr .handle .handle (Or.inl ⟨rfl, rfl⟩) hJ hok
  | create w => exact JQ_create n cr w hJ
  | newAddr w stk => exact JQ_newAddr n cr w stk hJ hok
  | recvTx tx => exact JQ_recvTx n cr tx hJ
  | crash =>
    cases cr with
    | false => exact hJ
    | true => exact (JQ_crash E n hJ).1

theorem skRun_cons (st : Static) (k : Skel) (ev : EvQ) (evs : List EvQ) :
    skRun st k (ev :: evs) = skRun st (skStep st k ev) evs := rfl

/-- the invariant along every history -/
theorem JQ_run {st : Static} {G : Block} (E : StaticOK st G) (n : Nat) (cr : Bool) :
    ∀ (evs : List EvQ) (x : SysQ) (k : Skel), JQ st G x k → RunOK st G k evs →
      JQ st G (runQ st n cr x evs) (skRun st k evs) := by
  intro evs
  induction evs with
  | nil => intro x k hJ _; exact hJ
  | cons ev evs ih =>
    intro x k hJ hR
    rw [runQ_cons, skRun_cons]
    exact ih _ _ (JQ_step E n cr ev hJ hR.1) hR.2

/-- whenever nothing is queued, the wallet — crashed any number of times at any commit boundaries or not —
    holds the books of the node's chain for the keystore view of that moment, the tip copy is the node's tip,
    the key cache is exact -/
theorem quiet_inv {st : Static} {G : Block} (E : StaticOK st G) (n : Nat) (cr : Bool) (evs : List EvQ) (x0 : SysQ)
    (k0 : Skel) (hJ : JQ st G x0 k0) (hR : RunOK st G k0 evs) (hq : (runQ st n cr x0 evs).queue = []) :
    Ledger.Inv ((lenv st (skRun st k0 evs).ks).ctx (skRun st k0 evs).chain) (runQ st n cr x0 evs).P.led
        (skRun st k0 evs).chain ∧
    (runQ st n cr x0 evs).V.led.best = tipMeta (skRun st k0 evs).chain ∧
    (runQ st n cr x0 evs).chain = (skRun st k0 evs).chain ∧
    (runQ st n cr x0 evs).P.ks = (skRun st k0 evs).ks ∧ (runQ st n cr x0 evs).V.keys = (skRun st k0 evs).ks ∧
    KeysOK (skRun st k0 evs).ks (runQ st n cr x0 evs).P.led := by
  obtain ⟨hc, hks, hkeys, ⟨S, ⟨hI, hv, _, _, _, _, hq0, _⟩, _⟩, _, _, hK⟩ := JQ_run E n cr evs x0 k0 hJ hR
  have hSe : S = (runQ st n cr x0 evs).chain := hq0 hq
  subst hSe
  refine ⟨?_, ?_, hc, hks, hkeys, hK⟩
  · rw [← hc]; exact hI
  · rw [← hc]; exact hv

-- ------------------------------------------------------------------ the notification queue of the crashing run

theorem stepQ_queue (st : Static) (n : Nat) (cr : Bool) (x : SysQ) (ev : EvQ) :
    (stepQ st n cr x ev).queue =
      match ev with
      | .extend b => x.queue ++ [b]
      | .reorgTo _ bs => x.queue ++ bs
      | .handle => x.queue.tail
      | .crash => if cr then [] else x.queue
      | _ => x.queue := by
  cases ev with
  | extend b => rfl
  | reorgTo m bs => rfl
  | handle => cases hq : x.queue <;> simp only [stepQ, hq, List.tail]
  | create w => rfl
  | newAddr w stk => simp only [stepQ]; cases useWallet x.P x.V w <;> rfl
  | recvTx tx => rfl
  | crash => cases cr <;> rfl

theorem suffix_tail {α : Type} {l₁ l₂ : List α} (h : l₁ <:+ l₂) : l₁.tail <:+ l₂.tail := by
  obtain ⟨s, rfl⟩ := h
  cases s with
  | nil => exact List.suffix_refl _
  | cons a s => exact (List.tail_suffix l₁).trans (List.suffix_append s l₁)

/-- what the crashing run has queued is always a suffix of what the run that never stops has queued -/
theorem queue_suffix (st : Static) (n : Nat) : ∀ (evs : List EvQ) (x1 x2 : SysQ), x1.queue <:+ x2.queue →
    (runQ st n true x1 evs).queue <:+ (runQ st n false x2 evs).queue := by
  intro evs
  induction evs with
  | nil => intro x1 x2 h; exact h
  | cons ev evs ih =>
    intro x1 x2 h
    rw [runQ_cons, runQ_cons]
    apply ih
    rw [stepQ_queue, stepQ_queue]
    cases ev with
    | extend b => obtain ⟨s, hs⟩ := h; exact ⟨s, by simp only; rw [← hs, List.append_assoc]⟩
    | reorgTo m bs => obtain ⟨s, hs⟩ := h; exact ⟨s, by simp only; rw [← hs, List.append_assoc]⟩
    | handle => exact suffix_tail h
    | create w => exact h
    | newAddr w stk => exact h
    | recvTx tx => exact h
    | crash => exact List.nil_suffix


-- ------------------------------------------------------------------ crash_equiv

/-- CRASH_EQUIV. One history `evs` of node events (extend, reorganise to any branch), handler steps (oldest
    queued notification through the real block operation: extension, reorganisation, stale, duplicate),
    CreateWallet, NewAddress and `crash` events — any number, at ANY commit boundaries, quiet or not — run twice
    from the same state: once with every crash executed (`Model.Persist.crash`: store kept, volatile state
    rebuilt by boot, notification queue lost, the real Start with resync and catch-up), once with the crashes
    ignored (the run that never stops). If the run that never stops ends with no notification pending, then so
    does the crashing run, on the same node chain, with the SAME keystore buckets and key cache, the same tip
    copy and synced-to height, extensionally equal confirmed buckets (credits, unspent index, debits, deposit
    records, tx records, block records, height table) and the same balance for every wallet — all of them
    ready in both runs. -/
theorem crash_equiv {st : Static} {G : Block} (E : StaticOK st G) (n : Nat) (evs : List EvQ) (x0 : SysQ) (k0 : Skel)
    (hJ : JQ st G x0 k0) (hR : RunOK st G k0 evs) (hq : (runQ st n false x0 evs).queue = []) :
    (runQ st n true x0 evs).queue = [] ∧
    (runQ st n true x0 evs).chain = (runQ st n false x0 evs).chain ∧
    (runQ st n true x0 evs).P.ks = (runQ st n false x0 evs).P.ks ∧
    (runQ st n true x0 evs).V.keys = (runQ st n false x0 evs).V.keys ∧
    AMap.Equiv (runQ st n true x0 evs).P.led.credits (runQ st n false x0 evs).P.led.credits ∧
    AMap.Equiv (runQ st n true x0 evs).P.led.unspent (runQ st n false x0 evs).P.led.unspent ∧
    AMap.Equiv (runQ st n true x0 evs).P.led.debits (runQ st n false x0 evs).P.led.debits ∧
    AMap.Equiv (runQ st n true x0 evs).P.led.game (runQ st n false x0 evs).P.led.game ∧
    AMap.Equiv (runQ st n true x0 evs).P.led.txrecs (runQ st n false x0 evs).P.led.txrecs ∧
    AMap.Equiv (runQ st n true x0 evs).P.led.blocks (runQ st n false x0 evs).P.led.blocks ∧
    AMap.Equiv (runQ st n true x0 evs).P.led.sync (runQ st n false x0 evs).P.led.sync ∧
    (runQ st n true x0 evs).P.led.syncedTo = (runQ st n false x0 evs).P.led.syncedTo ∧
    (runQ st n true x0 evs).V.led.best = (runQ st n false x0 evs).V.led.best ∧
    (∀ w ∈ walletsOf (runQ st n false x0 evs).P.ks,
      AMap.get (runQ st n true x0 evs).P.led.balance w = AMap.get (runQ st n false x0 evs).P.led.balance w ∧
      readyB (runQ st n true x0 evs).P.led w = true ∧ readyB (runQ st n false x0 evs).P.led w = true) := by
  have hqC : (runQ st n true x0 evs).queue = [] := by
    have := queue_suffix st n evs x0 x0 (List.suffix_refl _)
    rw [hq] at this
    exact List.suffix_nil.1 this
  obtain ⟨hI1, hv1, hc1, hks1, hkeys1, hK1⟩ := quiet_inv E n true evs x0 k0 hJ hR hqC
  obtain ⟨hI2, hv2, hc2, hks2, hkeys2, hK2⟩ := quiet_inv E n false evs x0 k0 hJ hR hq
  obtain ⟨a, b, c, d, f, g, h, i⟩ := inv_functional hI1 hI2
  refine ⟨hqC, hc1.trans hc2.symm, hks1.trans hks2.symm, hkeys1.trans hkeys2.symm, a, b, c, d, f, g, h, i,
    hv1.trans hv2.symm, fun w hw => ?_⟩
  rw [hks2] at hw
  have r1 := hK1.ready w hw
  have r2 := hK2.ready w hw
  have b1 := hI1.bal w (mem_readyWallets.2 ⟨hw, r1⟩)
  have b2 := hI2.bal w (mem_readyWallets.2 ⟨hw, r2⟩)
  exact ⟨b1.trans b2.symm, r1, r2⟩

/-- every crash of such a history finds a wallet on which Start SUCCEEDS (no catch-up step fails, the resync
    step included): stated for the last event of a history -/
theorem crash_start_ok {st : Static} {G : Block} (E : StaticOK st G) (n : Nat) (evs : List EvQ) (x0 : SysQ) (k0 : Skel)
    (hJ : JQ st G x0 k0) (hR : RunOK st G k0 evs) :
    (Model.Persist.crash (envAt st (runQ st n true x0 evs).chain) n (runQ st n true x0 evs).P).ok = true :=
  (JQ_crash E n (JQ_run E n true evs x0 k0 hJ hR)).2.2

/-- … and a crash DURING Start — between any two commits of its resync / catch-up — is covered too: every
    intermediate state of Start (`SInv`: books of a prefix of the node's chain) is a state from which boot +
    Start succeed and reach the books of the whole chain -/
theorem crash_during_start {st : Static} {G : Block} (E : StaticOK st G) {ks : AMap.T Wid KsRec} {chain : List Block}
    (hN : ChainOK (lenv st ks) G chain) (n : Nat) {s0 : Store} {h : Nat} {P : PStore} {V : PVol}
    (hS : SInv st ks chain s0 h P V) (hAR : AllReady (ownOf ks) (readyWallets s0 (walletsOf ks)))
    (hne : (readyWallets s0 (walletsOf ks)).isEmpty = false) :
    (Model.Persist.crash (envAt st chain) n P).ok = true ∧
    SInv st ks chain P.led (chain.length - 1) (Model.Persist.crash (envAt st chain) n P).P
      (Model.Persist.crash (envAt st chain) n P).V := by
  have := crash_reaches E hN n hS.pks hS.inv (hN.take h) (by rw [hS.ready]; exact hAR) (by rw [hS.ready]; exact hne)
  exact ⟨this.1, this.2.1⟩

end MW.Lemmas.Deepen3
