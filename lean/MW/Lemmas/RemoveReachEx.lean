/-
  C08, non-vacuity of the END-TO-END statement `remove_then_history_correct_reachable`: two wallets W1, W2 (the D11
  shape of RemoveEx), a C09 history
      connect B1 [C1 → A1] ; recv T3 (spends C1:0, pays A2 and a stranger) ; node moves to G–B1–B2 ; connect B2 [T4 cb → A2, T3]
  from the fresh store, inside the domain at every step; then W2 is removed (one finishing step); then the C01 history
  (here the empty one: the hypotheses `RunHyp` are about the environment and the store the removal leaves).
-/
import MW.Lemmas.RemoveReach
import MW.Lemmas.RemoveEx
namespace MW.Lemmas.RemoveReachEx
open MW MW.Model.Ledger MW.Model.Remove MW.Spec.Chain MW.Spec.Books MW.Spec.Pending MW.Lemmas.Ledger
  MW.Lemmas.PendHist MW.Lemmas.PendHist.Cred MW.Lemmas.RemoveInv MW.Lemmas.RemoveMain MW.Lemmas.RemoveReach
  MW.Lemmas.RemoveEx

def n1 : Node := { chain := [g, b1], known := known }
def n2 : Node := { chain := chain, known := known }
def src (id : TxId) : Option Tx := [c1, t3, t4].find? (fun t => t.id = id)
def E : HEnv := { p := { cbMaturity := 1 }, own := own, wallets := ["W1", "W2"], src := src }
def rk : TxId → Nat | "T3" => 2 | _ => 1
def W0 : HW := { node := n1, s := s0, v := {}, sp := { chain := [g] } }
def evs : List HEv := [.connect b1, .recv t3, .node n2, .connect b2]
def W1 : HW := stepH E W0 (.connect b1)
def W2 : HW := stepH E W1 (.recv t3)
def W3 : HW := stepH E W2 (.node n2)
def Wf : HW := runH E W0 evs

theorem fresh0 : FreshStore (E.ctx n1) s0 g where
  credits := rfl
  unspent := rfl
  debits := rfl
  game := rfl
  txrecs := rfl
  blocks := rfl
  sync := rfl
  syncedTo := rfl
  balance := by
    intro w hw
    change (readyWallets s0 ["W1", "W2"]).contains w = true at hw
    rw [ready0] at hw
    have : w = "W1" ∨ w = "W2" := by simpa using hw
    rcases this with rfl | rfl <;> rfl
  genesis := rfl

theorem hinv0 : HInv rk E W0 where
  inv := inv_fresh fresh0
  ar := by show AllReady own (readyWallets s0 ["W1", "W2"]); rw [ready0]; exact allReady
  ne := by decide
  rel := ⟨⟨fun _ _ h => (by cases h), fun _ _ h => (by obtain ⟨_, h, _⟩ := h; cases h), fun _ _ h => (by cases h),
    fun _ h => (by cases h), fun _ _ h => (by cases h)⟩, fun id t => ⟨fun h => (by cases h), fun h => (by cases h.1)⟩,
    List.nodup_nil⟩
  cons := fun _ h => by cases h
  sidx := fun _ h => by cases h
  nocb := fun _ h => by cases h
  relv := fun _ h => by cases h
  srcP := fun _ h => by cases h

theorem hinvc0 : HInvC rk E W0 :=
  ⟨hinv0, ⟨fun _ _ _ h => (by cases h), fun _ h => (by cases h), fun _ _ _ _ h => (by cases h), fun _ h => (by cases h)⟩⟩

theorem d1 : HOKc rk E W0 (.connect b1) :=
  show HOK rk E W0 (.connect b1) from
  ⟨⟨[], rfl⟩, (by decide), rfl,
    ⟨(by decide), (by decide), (by decide), fun _ _ _ h => (by cases h), (by decide)⟩,
    (by unfold SrcChain; decide)⟩

theorem d2 : HOKc rk E W1 (.recv t3) :=
  show RecvDomC rk E W1 t3 from
  { valid := by decide
    known := rfl
    srcN := by
      intro i hi
      have : i = ⟨"C1", 0, 0⟩ := by simpa [t3] using hi
      subst this
      have h : W1.node.fetchTx "C1" = some c1 := by decide
      intro p hp; rw [h] at hp; cases hp <;> decide
    idx := by
      intro i hi
      have : i = ⟨"C1", 0, 0⟩ := by simpa [t3] using hi
      subst this
      have h : E.src "C1" = some c1 := by decide
      intro p hp; rw [h] at hp; cases hp <;> decide
    rank := by decide
    nobb := by
      intro h
      have h2 : (match filterTxRel (E.ctx W1.node) W1.s t3 false [] (readyWallets W1.s E.wallets) with
        | .error .bothBinding => true | _ => false) = false := by decide
      rw [h] at h2; cases h2
    seen := by decide
    fresh := by decide
    noconf := by decide }

theorem pend3 : W3.sp.pend = [t3] := by decide

theorem d4 : HOKc rk E W3 (.connect b2) := by
  show HOK rk E W3 (.connect b2)
  refine ⟨⟨[], rfl⟩, (by decide), rfl, ⟨(by decide), (by decide), (by decide), ?_, (by decide)⟩,
    (by unfold SrcChain; decide)⟩
  intro u hu t ht hid
  rw [pend3] at ht
  have hu' : u = t4 ∨ u = t3 := by simpa [b2] using hu
  have ht' : t = t3 := by simpa using ht
  subst ht'
  rcases hu' with rfl | rfl <;> first | rfl | (exact absurd hid (by decide))

theorem domain : ∀ x ∈ worldsH E W0 evs, HOKc rk E x.1 x.2 := by
  intro x hx
  have : x = (W0, .connect b1) ∨ x = (W1, .recv t3) ∨ x = (W2, .node n2) ∨ x = (W3, .connect b2) := by
    simpa [worldsH, evs, W1, W2, W3] using hx
  rcases this with rfl | rfl | rfl | rfl
  · exact d1
  · exact d2
  · exact trivial
  · exact d4

theorem nodup0 : KeysNodup W0.s.credits := List.nodup_nil

/-- in the middle of the history the pending-credit bucket holds T3:0 (pays W2), and T3 is not on the chain G–B1 -/
example : W2.s.pendCred.map (·.1) = [("T3", 0)] ∧ idsOf (occs W2.sp.chain) = ["C1"] := by decide

/-- at the end: credits C1:0 (W1, spent by T3), T4:0 and T3:0 (W2); nothing pending -/
example : Wf.s.credits.map (·.1.tx) = ["T3", "C1", "T4"] ∧ Wf.s.pendCred = [] ∧ Wf.sp.pend = [] := by decide

theorem sync : Wf.node.chain = Wf.sp.chain := rfl

theorem remHypF : RemHyp (E.ctx Wf.node) "W2" ["A2"] own' Wf.sp.chain where
  minus := MW.Lemmas.RemoveProj.ownMinus_filter (by unfold KeysNodup; decide) "W2"
  managed := managed
  ne := by decide
  valid := valid
  heights := good.heights
  known := by
    intro x hx
    have hx' : x ∈ chain := hx
    simp only [chain, List.mem_cons, List.not_mem_nil, or_false] at hx'
    rcases hx' with rfl | rfl | rfl <;> rfl

theorem finishes : (removeStep 20000 (E.ctx Wf.node) "W2" ["A2"] Wf.s).map (·.finish) = some true := by decide

theorem readyAfter : (removeStep 20000 (E.ctx Wf.node) "W2" ["A2"] Wf.s).map (fun o => readyWallets o.s ["W1", "W2"]) =
    some ["W1"] := by decide

theorem known_cases {id : BlkId} {x : Block} (h : AMap.get known id = some x) : x = g ∨ x = b1 ∨ x = b2 := by
  simp only [known, AMap.get_cons, AMap.get_nil] at h
  repeat' split at h
  all_goals first | (cases h; simp; done) | cases h

theorem allReady' : AllReady own' ["W1"] := by
  intro a w ch h
  have : own' = [("A1", ("W1", false))] := by decide
  rw [this] at h
  simp only [AMap.get_cons, AMap.get_nil] at h
  split at h
  · simp only [Option.some.injEq, Prod.mk.injEq] at h; rw [← h.1]; rfl
  · cases h

/-- `RunHyp` for the history after the removal (the empty one) -/
theorem runHyp (o : StepOut) (h : removeStep 20000 (E.ctx Wf.node) "W2" ["A2"] Wf.s = some o) (v : Vol) :
    RunHyp (MW.Lemmas.RemoveHistory.envMinus (envOf E Wf.node) own') g
      { chain := Wf.sp.chain, queue := [], s := o.s, v := v } [] where
  genesisOnly := by
    intro id x hk h0
    rcases known_cases hk with rfl | rfl | rfl
    · rfl
    all_goals cases h0
  genesisPrev := by
    intro id x hk
    rcases known_cases hk with rfl | rfl | rfl <;> decide
  chains := by
    intro ch hch
    have : ch = chain := by
      have h1 : ch = Wf.sp.chain := by simpa [chainsOf] using hch
      exact h1
    subst this
    exact ⟨good, by decide, rfl, by
      intro x hx
      simp only [chain, List.mem_cons, List.not_mem_nil, or_false] at hx
      rcases hx with rfl | rfl | rfl <;> rfl⟩
  reorgNonempty := fun _ h => by cases h
  ready := by
    have hr := readyAfter
    rw [h] at hr
    have hr' : readyWallets o.s ["W1", "W2"] = ["W1"] := by simpa using hr
    show AllReady own' (readyWallets o.s ["W1", "W2"])
    rw [hr']; exact allReady'
  readyNe := by
    have hr := readyAfter
    rw [h] at hr
    have hr' : readyWallets o.s ["W1", "W2"] = ["W1"] := by simpa using hr
    show (readyWallets o.s ["W1", "W2"]).isEmpty = false
    rw [hr']; rfl

/-- every hypothesis of `remove_then_history_correct_reachable` is met: after the C09 history and the removal of W2
    the store holds exactly the books of G–B1–B2 for W1's keystore alone -/
theorem ex_end_to_end (o : StepOut) (h : removeStep 20000 (E.ctx Wf.node) "W2" ["A2"] Wf.s = some o) :
    Inv ((MW.Lemmas.RemoveHistory.envMinus (envOf E Wf.node) own').ctx chain) o.s chain := by
  have hf : o.finish = true := by
    have := finishes
    rw [h] at this
    simpa using this
  exact remove_then_history_correct_reachable (rank := rk) evs W0 hinvc0 nodup0 domain (W := Wf) rfl sync 20000
    remHypF h hf g { best := tipMeta chain } rfl [] (runHyp o h _) rfl

end MW.Lemmas.RemoveReachEx
