/-
  C02 (topK_spec, "k largest" reading): the amounts the selector keeps are, sorted, exactly the first
  k entries of the sorted amounts of the coins not above the target.
-/
import MW.Lemmas.SelectTopK
namespace MW.Lemmas.SelectKLargest
open MW MW.Model.Select

/-- descending sort of amounts (the one the driver's spec column uses) -/
def sortDescNat (l : List Nat) : List Nat := l.mergeSort (fun a b => decide (b ≤ a))

theorem sortDescNat_sorted (l : List Nat) : (sortDescNat l).Pairwise (fun a b => b ≤ a) := by
  have := List.pairwise_mergeSort (le := fun a b => decide (b ≤ a))
    (by intro a b c h1 h2; simp only [decide_eq_true_eq] at *; omega)
    (by intro a b; simp only [Bool.or_eq_true, decide_eq_true_eq]; omega) l
  simpa [sortDescNat] using this

theorem sortDescNat_perm (l : List Nat) : (sortDescNat l).Perm l := List.mergeSort_perm _ _

theorem eq_of_perm_sorted {l₁ l₂ : List Nat} (h₁ : l₁.Pairwise (fun a b => b ≤ a)) (h₂ : l₂.Pairwise (fun a b => b ≤ a))
    (hp : l₁.Perm l₂) : l₁ = l₂ :=
  List.Perm.eq_of_pairwise (le := fun a b => b ≤ a) (by intro a b _ _ h1 h2; omega) h₁ h₂ hp

/-- k largest: if B ++ R is a permutation of L, nothing in R exceeds anything in B, and B has
    min k |L| elements, then sorted B = the first k of sorted L -/
theorem k_largest (k : Nat) (B R L : List Nat) (hp : (B ++ R).Perm L) (hb : ∀ r ∈ R, ∀ b ∈ B, r ≤ b)
    (hlen : B.length = min k L.length) : sortDescNat B = (sortDescNat L).take k := by
  -- sorted L = sorted B ++ sorted R
  have hcat : (sortDescNat B ++ sortDescNat R).Pairwise (fun a b => b ≤ a) := by
    rw [List.pairwise_append]
    refine ⟨sortDescNat_sorted B, sortDescNat_sorted R, ?_⟩
    intro a ha b hb'
    exact hb b ((sortDescNat_perm R).mem_iff.mp hb') a ((sortDescNat_perm B).mem_iff.mp ha)
  have hperm : (sortDescNat B ++ sortDescNat R).Perm (sortDescNat L) :=
    (((sortDescNat_perm B).append (sortDescNat_perm R)).trans hp).trans (sortDescNat_perm L).symm
  have heq := eq_of_perm_sorted hcat (sortDescNat_sorted L) hperm
  rw [← heq]
  have hBl : (sortDescNat B).length = B.length := (sortDescNat_perm B).length_eq
  have hLl : L.length = B.length + R.length := by
    have := hp.length_eq
    rw [List.length_append] at this
    omega
  by_cases hk : B.length = k
  · rw [← hk, ← hBl, List.take_left]
  · -- fewer than k coins in all: nothing was left out
    have hR : R = [] := by
      apply List.eq_nil_of_length_eq_zero
      omega
    subst hR
    have : sortDescNat ([] : List Nat) = [] := by simp [sortDescNat]
    rw [this, List.append_nil, List.take_of_length_le]
    omega

end MW.Lemmas.SelectKLargest
