/-
  Helper lemmas for C02 (greedy_sound): the greedy loop of optOutputs returns a sub-multiset of its
  input and reaches the amount whenever the input does.
-/
import MW.Model.Select
namespace MW.Lemmas.SelectGreedy
open MW MW.Model.Select

/-- l₁ is a sub-multiset of l₂ -/
def SubMultiset {α : Type} (l₁ l₂ : List α) : Prop := ∃ rest, (l₁ ++ rest).Perm l₂

theorem perm_sumAmt {l₁ l₂ : List Coin} (h : l₁.Perm l₂) : sumAmt l₁ = sumAmt l₂ := by
  unfold sumAmt
  induction h with
  | nil => rfl
  | cons x _ ih => simp [ih]
  | swap x y l => simp; omega
  | trans _ _ ih1 ih2 => exact ih1.trans ih2

theorem sumAmt_append (a b : List Coin) : sumAmt (a ++ b) = sumAmt a + sumAmt b := by
  unfold sumAmt; simp

theorem sumAmt_cons (x : Coin) (l : List Coin) : sumAmt (x :: l) = x.amt + sumAmt l := by
  unfold sumAmt; simp

theorem SubMultiset.sum_le {l₁ l₂ : List Coin} (h : SubMultiset l₁ l₂) : sumAmt l₁ ≤ sumAmt l₂ := by
  obtain ⟨rest, hp⟩ := h
  rw [← perm_sumAmt hp, sumAmt_append]; omega

theorem SubMultiset.length_le {α : Type} {l₁ l₂ : List α} (h : SubMultiset l₁ l₂) : l₁.length ≤ l₂.length := by
  obtain ⟨rest, hp⟩ := h
  rw [← hp.length_eq, List.length_append]; omega

theorem SubMultiset.of_sublist_perm {α : Type} {a b c : List α} (h1 : a.Sublist b) (h2 : b.Perm c) : SubMultiset a c := by
  induction h1 generalizing c with
  | slnil => exact ⟨c, by simp⟩
  | @cons l₁ l₂ x _ ih =>
    -- x is dropped: it goes to the rest
    obtain ⟨rest, hp⟩ := ih (List.Perm.refl l₂)
    refine ⟨x :: rest, ?_⟩
    have : (l₁ ++ x :: rest).Perm (x :: (l₁ ++ rest)) := List.perm_middle
    exact (this.trans (List.Perm.cons x hp)).trans h2
  | @cons_cons l₁ l₂ x _ ih =>
    obtain ⟨rest, hp⟩ := ih (List.Perm.refl l₂)
    refine ⟨rest, ?_⟩
    exact (List.Perm.cons x hp).trans h2

theorem SubMultiset.trans_perm {α : Type} {a b c : List α} (h1 : SubMultiset a b) (h2 : b.Perm c) : SubMultiset a c := by
  obtain ⟨rest, hp⟩ := h1
  exact ⟨rest, hp.trans h2⟩

theorem SubMultiset.append_right {α : Type} {a b : List α} (h : SubMultiset a b) (c : List α) : SubMultiset a (b ++ c) := by
  obtain ⟨rest, hp⟩ := h
  refine ⟨rest ++ c, ?_⟩
  rw [← List.append_assoc]
  exact hp.append_right c

/-- invariant of the greedy loop after the coins `P` (indices < idx) have been looked at -/
structure GInv (amount : Nat) (P : List Coin) (idx : Nat) (st : GState) : Prop where
  perm : (st.sel.map (·.2) ++ st.unsel.map (·.2)).Perm P
  opt : st.opt = sumAmt (st.sel.map (·.2))
  selIdx : ∀ e ∈ st.sel, e.1 < idx
  unselIdx : ∀ e ∈ st.unsel, e.1 < idx
  over : ∀ e ∈ st.unsel, sumAmt ((st.sel.filter (fun s => decide (s.1 < e.1))).map (·.2)) + e.2.amt > amount

theorem ginv_init (amount : Nat) : GInv amount [] 0 {} :=
  ⟨by simp, by simp [sumAmt], by simp, by simp, by simp⟩

/-- what the loop guarantees about its final state, `all` being every coin of the input -/
def Post (amount : Nat) (all : List Coin) (st' : GState) : Prop :=
  SubMultiset (st'.sel.map (·.2)) all ∧ (sumAmt all ≥ amount → sumAmt (st'.sel.map (·.2)) ≥ amount)

theorem filter_lt_append_ge (sel : List (Nat × Coin)) (idx : Nat) (u : Coin) (b : Nat) (h : b ≤ idx) :
    (sel ++ [(idx, u)]).filter (fun s => decide (s.1 < b)) = sel.filter (fun s => decide (s.1 < b)) := by
  rw [List.filter_append]
  have : ¬ idx < b := by omega
  simp [this]

theorem filter_lt_all (sel : List (Nat × Coin)) (idx : Nat) (h : ∀ e ∈ sel, e.1 < idx) :
    sel.filter (fun s => decide (s.1 < idx)) = sel := by
  rw [List.filter_eq_self]
  intro e he
  simp [h e he]

theorem greedyLoop_post (amount : Nat) : ∀ (rest : List Coin) (u : Coin) (idx : Nat) (st st' : GState) (P : List Coin),
    GInv amount P idx st → greedyLoop amount (u :: rest) idx st = .ok st' → Post amount (P ++ u :: rest) st' := by
  intro rest
  induction rest with
  | nil =>
    intro u idx st st' P inv h
    obtain ⟨hperm, hopt, hsi, hui, hover⟩ := inv
    unfold greedyLoop at h
    by_cases hov : st.res + u.amt > maxAmount
    · simp [hov] at h
    · simp only [hov, if_false, List.isEmpty_nil, if_true] at h
      have hperm' : ((st.sel ++ [(idx, u)]).map (·.2) ++ st.unsel.map (·.2)).Perm (P ++ [u]) := by
        simp only [List.map_append, List.map_cons, List.map_nil]
        have : (List.map (·.2) st.sel ++ [u] ++ List.map (·.2) st.unsel).Perm
            (List.map (·.2) st.sel ++ List.map (·.2) st.unsel ++ [u]) := by
          rw [List.append_assoc, List.append_assoc]
          exact List.Perm.append_left _ List.perm_append_comm
        exact this.trans (hperm.append_right _)
      have hsum' : sumAmt ((st.sel ++ [(idx, u)]).map (·.2)) = st.opt + u.amt := by
        simp only [List.map_append, List.map_cons, List.map_nil]
        rw [sumAmt_append, hopt]
        simp [sumAmt]
      by_cases hlt : st.opt + u.amt < amount
      · simp only [hlt, if_true] at h
        cases hl : st.unsel.getLast? with
        | none =>
          rw [hl] at h
          simp only [] at h
          injection h with h
          subst h
          have hun : st.unsel = [] := List.getLast?_eq_none_iff.mp hl
          constructor
          · simp only []
            refine ⟨st.unsel.map (·.2), hperm'⟩
          · intro hall
            simp only []
            -- everything was selected
            rw [hun] at hperm'
            simp only [List.map_nil, List.append_nil] at hperm'
            rw [perm_sumAmt hperm']
            exact hall
        | some lu =>
          rw [hl] at h
          simp only [] at h
          injection h with h
          subst h
          have hmem : lu ∈ st.unsel := List.mem_of_getLast? hl
          have hlui := hui lu hmem
          have hfil : (st.sel ++ [(idx, u)]).filter (fun e => decide (e.1 < lu.1)) = st.sel.filter (fun s => decide (s.1 < lu.1)) :=
            filter_lt_append_ge _ _ _ _ (by omega)
          constructor
          · simp only []
            rw [hfil]
            have h1 : ((st.sel.filter (fun s => decide (s.1 < lu.1)) ++ [lu]).map (·.2)).Sublist
                (st.sel.map (·.2) ++ st.unsel.map (·.2)) := by
              rw [List.map_append]
              apply List.Sublist.append
              · exact List.Sublist.map _ List.filter_sublist
              · simp only [List.map_cons, List.map_nil, List.singleton_sublist]
                exact List.mem_map_of_mem hmem
            have := SubMultiset.of_sublist_perm h1 hperm
            exact this.append_right [u]
          · intro _
            simp only []
            rw [hfil, List.map_append, sumAmt_append]
            have := hover lu hmem
            simp only [List.map_cons, List.map_nil]
            have e : sumAmt [lu.2] = lu.2.amt := by simp [sumAmt]
            rw [e]; omega
      · simp only [hlt, if_false] at h
        injection h with h
        subst h
        constructor
        · exact ⟨st.unsel.map (·.2), hperm'⟩
        · intro _
          simp only []
          rw [hsum']; omega
  | cons v t ih =>
    intro u idx st st' P inv h
    obtain ⟨hperm, hopt, hsi, hui, hover⟩ := inv
    unfold greedyLoop at h
    by_cases hov : st.res + u.amt > maxAmount
    · simp [hov] at h
    · simp only [hov, if_false, List.isEmpty_cons, Bool.false_eq_true] at h
      have e : P ++ u :: v :: t = (P ++ [u]) ++ v :: t := by simp
      rw [e]
      by_cases hgt : st.opt + u.amt > amount
      · -- unselected
        simp only [hgt, if_true] at h
        apply ih v (idx + 1) _ st' (P ++ [u]) _ h
        refine ⟨?_, hopt, ?_, ?_, ?_⟩
        · simp only [List.map_append, List.map_cons, List.map_nil]
          rw [← List.append_assoc]
          exact hperm.append_right _
        · intro e he; have := hsi e he; omega
        · intro e he
          rcases List.mem_append.mp he with he | he
          · have := hui e he; omega
          · simp at he; subst he; simp
        · intro e he
          rcases List.mem_append.mp he with he | he
          · exact hover e he
          · simp at he
            subst he
            simp only []
            rw [filter_lt_all _ _ hsi, ← hopt]; omega
      · simp only [hgt, if_false] at h
        have hinv' : GInv amount (P ++ [u]) (idx + 1)
            { st with res := st.res + u.amt, opt := st.opt + u.amt, sel := st.sel ++ [(idx, u)] } := by
          refine ⟨?_, ?_, ?_, ?_, ?_⟩
          · simp only [List.map_append, List.map_cons, List.map_nil]
            have : (List.map (·.2) st.sel ++ [u] ++ List.map (·.2) st.unsel).Perm
                (List.map (·.2) st.sel ++ List.map (·.2) st.unsel ++ [u]) := by
              rw [List.append_assoc, List.append_assoc]
              exact List.Perm.append_left _ List.perm_append_comm
            exact this.trans (hperm.append_right _)
          · simp only [List.map_append, List.map_cons, List.map_nil]
            rw [sumAmt_append, hopt]; simp [sumAmt]
          · intro e he
            rcases List.mem_append.mp he with he | he
            · have := hsi e he; omega
            · simp at he; subst he; simp
          · intro e he; have := hui e he; omega
          · intro e he
            simp only []
            rw [filter_lt_append_ge _ _ _ _ (by have := hui e he; omega)]
            exact hover e he
        by_cases heq : st.opt + u.amt = amount
        · simp only [heq, if_true] at h
          injection h with h
          subst h
          constructor
          · have := hinv'.perm
            exact (SubMultiset.append_right ⟨_, this⟩ (v :: t))
          · intro _
            simp only []
            rw [← hinv'.opt]
            simp only []
            omega
        · simp only [heq, if_false] at h
          exact ih v (idx + 1) _ st' (P ++ [u]) hinv' h

end MW.Lemmas.SelectGreedy
