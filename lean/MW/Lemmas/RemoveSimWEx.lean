/-
  C08, the relaxed ghost/real relation on a concrete instance: the history of `MW.Lemmas.RemoveMidCex` (W2's coinbase C1
  pays W2 twice and W1 once, X3 spends both coins of W2; step size 1).  Ghost `g` = the flagged store, real `s1` = the
  store after the FIRST removal step (it lacks the credit (C1, 1) and its debit (X3, 1)).  Every hypothesis of
  `subW_removeStep_parked` and of `disconnectBlock_rel` is met, the tip block B2 — connected BEFORE the first step — is
  disconnected on both stores, and the results are related again.
-/
import MW.Lemmas.RemoveSimWStep
import MW.Lemmas.RemoveSimWLoop
import MW.Lemmas.RemoveMidCex
namespace MW.Lemmas.RemoveSimW
open MW MW.Model.Ledger MW.Model.Remove MW.Lemmas.Ledger MW.Lemmas.LedgerWFCred MW.Lemmas.RemoveSim MW.Lemmas.RemoveChar
  MW.Lemmas.RemoveKeep MW.Lemmas.RemoveMidCex

-- ------------------------------------------------------------------ the ghost-side facts, by a finite check

theorem ghostDeb_of_check (g : Store)
    (h : g.credits.all (fun e => match spKey e.2 with
      | none => true
      | some dk => match AMap.get g.debits dk with
        | some d => decide (d.2 = e.1)
        | none => false) = true) : GhostDeb g := by
  intro ck cr dk hc hsp
  have hm := List.all_eq_true.1 h (ck, cr) (get_mem hc)
  simp only [hsp] at hm
  cases hd : AMap.get g.debits dk with
  | none => rw [hd] at hm; cases hm
  | some d =>
    rw [hd] at hm
    obtain ⟨amt, ck'⟩ := d
    have : ck' = ck := by simpa using hm
    exact ⟨amt, by rw [this]⟩

theorem ghostBlk_of_check (g : Store)
    (h : g.txrecs.all (fun e => match AMap.get g.blocks e.1.2.height with
      | some r => decide (r.1 = e.1.2.hash)
      | none => false) = true) : GhostBlk g := by
  intro k loc hl
  have hm := List.all_eq_true.1 h (k, loc) (get_mem hl)
  cases hb : AMap.get g.blocks k.2.height with
  | none => simp only [hb] at hm; cases hm
  | some r =>
    simp only [hb] at hm
    obtain ⟨bh, txs⟩ := r
    have : bh = k.2.hash := by simpa using hm
    exact ⟨txs, by rw [this]⟩

theorem ghostCV_of_check (c : Ctx) (g : Store)
    (h : g.credits.all (fun e => match AMap.get g.txrecs (e.1.tx, e.1.blk) with
      | none => true
      | some loc => match c.node.txByFileLoc loc with
        | none => true
        | some tx => match tx.outs[e.1.idx]? with
          | none => true
          | some o => decide (e.2.sh = o.addr)) = true) : GhostCV c g := by
  intro id blk i cr loc tx o hc hl ht ho
  have hm := List.all_eq_true.1 h (⟨id, blk, i⟩, cr) (get_mem hc)
  simp only [hl, ht, ho] at hm
  simpa using hm

-- ------------------------------------------------------------------ the instance

/-- the store after the first removal step -/
def s1 : Store := ((removeStep 1 ctx "W2" ["A2"] stF).map (·.s)).getD stF

theorem step1 : ∃ o, removeStep 1 ctx "W2" ["A2"] stF = some o ∧ o.finish = false ∧ o.s = s1 := by
  cases h : removeStep 1 ctx "W2" ["A2"] stF with
  | none => exact absurd h (by decide)
  | some o =>
    refine ⟨o, rfl, ?_, ?_⟩
    · have : (removeStep 1 ctx "W2" ["A2"] stF).map (·.finish) = some false := by decide
      rw [h] at this; exact Option.some.inj this
    · unfold s1; rw [h]; rfl

theorem ghostDeb_stF : GhostDeb stF := ghostDeb_of_check stF (by decide)
theorem ghostBlk_stF : GhostBlk stF := ghostBlk_of_check stF (by decide)
theorem ghostCV_stF : GhostCV { ctx with node := nodeB } stF := ghostCV_of_check _ stF (by decide)

theorem ownW_ex : OwnW { ctx with node := nodeB } "W2" ["A2"] := by
  intro a ha
  have : a = "A2" := by simpa using ha
  subst this
  exact ⟨false, by decide⟩

/-- the relaxed relation after the first step: the real store lacks the credit (C1, B1, 1) and the debit (X3, B2, 1) -/
theorem subW_s1 : SubW "W2" ["A2"] stF s1 := by
  obtain ⟨o, ho, hf, hs⟩ := step1
  rw [← hs]
  exact subW_removeStep_parked (by decide) (SubW.refl _ _ _) stF_nodup ghostDeb_stF ghostBlk_stF ho hf

theorem s1_lacks : AMap.get s1.credits ⟨"C1", ⟨1, "B1"⟩, 1⟩ = none ∧ (AMap.get stF.credits ⟨"C1", ⟨1, "B1"⟩, 1⟩).isSome = true ∧
    AMap.get s1.debits ⟨"X3", ⟨2, "B2"⟩, 1⟩ = none ∧ (AMap.get stF.debits ⟨"X3", ⟨2, "B2"⟩, 1⟩).isSome = true := by decide

theorem reach_s1 : Reach s1 := by
  obtain ⟨o, ho, _, hs⟩ := step1
  rw [← hs]
  exact removeStep_reach 1 ctx "W2" ["A2"] stF o (by decide) ho (inv_reach inv_stF validA)

/-- the tip block B2 (connected before the first step) is disconnected on both stores: related again -/
theorem disconnect_ex : ∃ g' s', disconnectBlock { ctx with node := nodeB } stF 2 = .ok g' ∧
    disconnectBlock { ctx with node := nodeB } s1 2 = .ok s' ∧ SubW "W2" ["A2"] g' s' := by
  cases hg : disconnectBlock { ctx with node := nodeB } stF 2 with
  | error e =>
    have : (disconnectBlock { ctx with node := nodeB } stF 2).toBool = true := by decide
    rw [hg] at this; cases this
  | ok g' =>
    cases hs : disconnectBlock { ctx with node := nodeB } s1 2 with
    | error e =>
      have : (disconnectBlock { ctx with node := nodeB } s1 2).toBool = true := by decide
      rw [hs] at this; cases this
    | ok s' =>
      exact ⟨g', s', rfl, rfl, (disconnectBlock_rel ownW_ex subW_s1 reach_s1 ghostCV_stF (by decide) hg hs).1⟩

end MW.Lemmas.RemoveSimW
