import MW.Lemmas.PersistFault
open MW MW.Model.Ledger MW.Model.Persist MW.Spec.Persist MW.Lemmas.PersistOp MW.Lemmas.PersistFault

/-- attempts that all fail and each restore the volatile state exactly leave it unchanged -/
theorem attempts_exact (o : Op) (P : PStore)
    (hex : ∀ j V, (o.run (some j) P V).ok = false → (o.run (some j) P V).V = V) :
    ∀ (js : List Nat) (V : PVol), allFail o js P V → attempts o js P V = V := by
  intro js
  induction js with
  | nil => intro V _; rfl
  | cons j js ih =>
    intro V h
    have h1 := hex j V h.1
    unfold attempts
    simp only [List.foldl]
    have h2 := h.2
    rw [h1] at h2 ⊢
    exact ih V h2

/-- an invariant of the volatile state kept by every failed attempt holds after all of them -/
theorem attempts_inv (o : Op) (P : PStore) (I : PVol → Prop)
    (hstep : ∀ j V, I V → (o.run (some j) P V).ok = false → I (o.run (some j) P V).V) :
    ∀ (js : List Nat) (V : PVol), I V → allFail o js P V → I (attempts o js P V) := by
  intro js
  induction js with
  | nil => intro V hi _; exact hi
  | cons j js ih =>
    intro V hi h
    unfold attempts
    simp only [List.foldl]
    exact ih _ (hstep j V hi h.1) h.2

/-- fault-free NewAddress in closed form -/
theorem newAddr_none (env : Env) (nA nB nC : Nat) (stk : Bool) (P : PStore) (V : PVol) (w : Wid) (r c : KsRec)
    (hcur : V.cur = some w) (hr : AMap.get P.ks w = some r) (hk : AMap.get V.keys w = some c) :
    ((opNewAddr env nA nB nC stk).run none P V).ok = true ∧
    ((opNewAddr env nA nB nC stk).run none P V).P =
      { led := { P.led with addrs := AMap.put P.led.addrs (w, stk, env.derive w r.next) 0 },
        ks := AMap.put P.ks w { next := r.next + 1, addrs := r.addrs ++ [(r.next, env.derive w r.next)] } } ∧
    AMap.get ((opNewAddr env nA nB nC stk).run none P V).V.keys w =
      some { next := r.next + 1, addrs := insertAddr c.addrs (r.next, env.derive w r.next) } := by
  unfold Op.run
  simp only [opNewAddr, runPhases]
  simp [hcur, hr, hk, AMap.get_put, getLast_snoc]
