import MW.Lemmas.TxmgrCodec
namespace MW.TxmgrCodec
open MW MW.Gen.Codec MW.Model.TxmgrCodec
#eval (Gen.Codec.all.filter (fun L => L.write)).filter (fun L => !WFRec L) |>.map (·.fn)

theorem readRawCreditKey_keyCredit (k : CredKeyB) (h : Fits wKeyCredit.spans k.vals = true) :
    readRawCreditKey (keyCredit k) = some k := by
  have e := decodeBy_encode wKeyCredit rRawCreditKey k.vals (by decide) h (by decide)
  simp only [readRawCreditKey, keyCredit, e]
  rfl
#eval keyCredit ⟨[1,2], ⟨258, [3]⟩, 7⟩
end MW.TxmgrCodec
