example (p rel : List Nat) (hr : rel ≠ []) : (p ++ rel).getLast? = rel.getLast? := by
  simp [List.getLast?_append, hr]
  cases h : rel.getLast? with
  | none => simp [List.getLast?_eq_none_iff] at h; exact absurd h hr
  | some x => simp
