import MW.Model.KVHandles
open MW MW.KV MW.Model.KV
unseal MW.Dec.render in
example : itoa 2 = [50] := by decide
example : itoa 12 = [49, 50] := by decide +kernel
