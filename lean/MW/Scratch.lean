import MW.Lemmas.ScriptTok
open MW MW.Model.Script MW.Lemmas.ScriptTok

theorem idx_shift {α} (s : List α) (i j : Nat) : idx s (i + j) = idx (s.drop i) j := by
  unfold idx; rw [List.getElem?_drop]

theorem slice_shift {α} (s : List α) (i a c : Nat) (hi : i ≤ s.length) :
    slice s (i + a) (i + c) = slice (s.drop i) a c := by
  unfold slice
  have h1 : (i + a ≤ i + c ∧ i + c ≤ s.length) ↔ (a ≤ c ∧ c ≤ (s.drop i).length) := by
    rw [List.length_drop]; omega
  by_cases h : a ≤ c ∧ c ≤ (s.drop i).length
  · rw [if_pos h, if_pos (h1.mpr h), List.drop_drop]
    have : i + c - (i + a) = c - a := by omega
    rw [this]
  · rw [if_neg h, if_neg (fun x => h (h1.mp x))]

theorem slice_shift_end {α} (s : List α) (i a : Nat) (hi : i ≤ s.length) :
    slice s (i + a) s.length = slice (s.drop i) a (s.drop i).length := by
  have : s.length = i + (s.drop i).length := by rw [List.length_drop]; omega
  conv => lhs; rw [this]
  rw [slice_shift s i a _ hi]

def shiftRes (i : Nat) : M (Pop × Nat) → M (Pop × Nat)
  | .ok (p, n) => .ok (p, i + n)
  | .error e => .error e

theorem parseStep_shift (s : Bytes) (i : Nat) (hi : i ≤ s.length) :
    parseStep s i = shiftRes i (parseStep (s.drop i) 0) := by
  unfold parseStep
  have e0 : idx s i = idx (s.drop i) 0 := idx_shift s i 0
  rw [e0]
  cases h0 : idx (s.drop i) 0 with
  | error e => simp [bind, Except.bind, shiftRes]
  | ok instr =>
    simp only [bind, Except.bind]
    cases hl : opLength instr with
    | error e => simp [shiftRes]
    | ok len =>
      simp only []
      have a0 : slice s i s.length = slice (s.drop i) 0 (s.drop i).length := slice_shift_end s i 0 hi
      have a1 : ∀ c, slice s (i + 1) (i + c) = slice (s.drop i) 1 c := fun c => slice_shift s i 1 c hi
      have a2 : ∀ a, slice s (i + a) s.length = slice (s.drop i) a (s.drop i).length := fun a => slice_shift_end s i a hi
      have a3 : ∀ a c, slice s (i + a) (i + c) = slice (s.drop i) a c := fun a c => slice_shift s i a c hi
      have a4 : ∀ j, idx s (i + j) = idx (s.drop i) j := fun j => idx_shift s i j
      simp only [Nat.add_assoc, Nat.zero_add, a0, a1, a2, a3, a4]
      generalize s.drop i = t
      repeat' split
      all_goals simp_all [shiftRes, pure, Except.pure, fail]

def stepG (b : UInt8) (r : Bytes) : M (Pop × Nat) :=
  let n := b.toNat
  if n = 0 ∨ 78 < n then .ok (⟨b, []⟩, 1)
  else if n ≤ 75 then (if r.length < n then fail .shortScript else .ok (⟨b, r.take n⟩, n + 1))
  else
    let k := if n = 76 then 1 else if n = 77 then 2 else 4
    if r.length < k then fail .shortScript
    else
      let l := leNat (r.take k)
      if l > r.length - k then fail .shortScript else .ok (⟨b, (r.drop k).take l⟩, 1 + k + l)

theorem slice_all {α} (l : List α) : slice l 0 l.length = .ok l := by
  simp [slice]

theorem slice_tail {α} (a : α) (l : List α) : slice (a :: l) 1 (a :: l).length = .ok l := by
  simp [slice]

theorem parseStep_cons (b : UInt8) (r : Bytes) : parseStep (b :: r) 0 = stepG b r := by
  unfold parseStep stepG
  have hi : idx (b :: r) 0 = .ok b := rfl
  simp only [hi, bind, Except.bind, opLength_eq]
  by_cases h0 : b.toNat = 0
  · simp [opLenFN, h0, pure, Except.pure]
  by_cases h75 : b.toNat ≤ 75
  · have hl : opLenFN b.toNat = (b.toNat : Int) + 1 := by simp [opLenFN, h0, h75]
    have hne : ¬ ((b.toNat : Int) + 1 == 1) = true := by simp; omega
    have hgt : (b.toNat : Int) + 1 > 1 := by omega
    have htn : ((b.toNat : Int) + 1).toNat = b.toNat + 1 := by omega
    have h78 : ¬ (b.toNat = 0 ∨ 78 < b.toNat) := by omega
    simp only [hl, hne, hgt, htn, h78, h75, if_true, if_false, slice_all, Nat.zero_add]
    by_cases hr : r.length < b.toNat
    · have : (b :: r).length < b.toNat + 1 := by simp; omega
      simp only [this, hr, if_true]; simp
    · have : ¬ (b :: r).length < b.toNat + 1 := by simp; omega
      have hs : slice (b :: r) 1 (b.toNat + 1) = .ok (r.take b.toNat) := by
        unfold slice; simp; omega
      simp only [this, hr, hs, if_false, pure, Except.pure]; simp
  · by_cases h76 : b.toNat = 76
    · rcases r with _ | ⟨c0, r'⟩
      · simp [opLenFN, h76, slice, fail]
      · simp [opLenFN, h76, slice, idx, fail, pure, Except.pure, leNat]
        by_cases hc : r'.length < c0.toNat
        · simp [hc]
        · have : 2 + c0.toNat ≤ r'.length + 1 + 1 := by omega
          simp [hc, this]
    by_cases h77 : b.toNat = 77
    · rcases r with _ | ⟨c0, _ | ⟨c1, r'⟩⟩
      · simp [opLenFN, h77, slice, fail]
      · simp [opLenFN, h77, slice, fail]
      · simp [opLenFN, h77, slice, idx, fail, pure, Except.pure, leNat]
        have e : c1.toNat * 256 + c0.toNat = c0.toNat + 256 * c1.toNat := by omega
        rw [e]
        generalize c0.toNat + 256 * c1.toNat = l
        have h2 : ¬ r'.length + 1 + 1 < 2 := by omega
        simp only [h2, if_false]
        by_cases hc : r'.length < l
        · simp [hc]
        · have : 3 + l ≤ r'.length + 1 + 1 + 1 := by omega
          simp [hc, this]
    by_cases h78 : b.toNat = 78
    · rcases r with _ | ⟨c0, _ | ⟨c1, _ | ⟨c2, _ | ⟨c3, r'⟩⟩⟩⟩
      · simp [opLenFN, h78, slice, fail]
      · simp [opLenFN, h78, slice, fail]
      · simp [opLenFN, h78, slice, fail]
      · simp [opLenFN, h78, slice, fail]
      · simp [opLenFN, h78, slice, idx, fail, pure, Except.pure, leNat]
        have e : c3.toNat * 16777216 + c2.toNat * 65536 + c1.toNat * 256 + c0.toNat
            = c0.toNat + 256 * (c1.toNat + 256 * (c2.toNat + 256 * c3.toNat)) := by omega
        rw [e]
        generalize c0.toNat + 256 * (c1.toNat + 256 * (c2.toNat + 256 * c3.toNat)) = l
        have h2 : ¬ r'.length + 1 + 1 + 1 + 1 < 4 := by omega
        simp only [h2, if_false]
        by_cases hc : r'.length < l
        · simp [hc]
        · have : 5 + l ≤ r'.length + 1 + 1 + 1 + 1 + 1 := by omega
          simp [hc, this]
    · have : 78 < b.toNat := by omega
      simp [opLenFN, h0, h75, h76, h77, h78, this, pure, Except.pure]
