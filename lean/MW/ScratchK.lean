import MW.Lemmas.KsCodecParse
import Mathlib.Tactic.SplitIfs
namespace MW.KsCodecL
open MW MW.Model.KsCodec

theorem readStrBody_escAscii (b : UInt8) (hb : b.toNat < 128) (f : Nat) (rest : Bytes) :
    readStrBody (f + 1) (escAscii b ++ rest) = (readStrBody f rest).map (fun p => (b :: p.1, p.2)) := by
  have hb' : b = UInt8.ofNat b.toNat := by simp
  generalize b.toNat = n at hb hb'
  subst hb'
  interval_cases n <;> rfl

theorem readTok_raw (c : UInt8) (rest : Bytes) (h1 : c ≠ 92) (h2 : c ≠ 34) (h3 : 32 ≤ c.toNat) :
    readTok (c :: rest) = some ([c], rest) := by
  have : ¬ c.toNat < 32 := by omega
  simp [readTok, h1, h2, this]

theorem readStrBody_high (c : UInt8) (hc : 128 ≤ c.toNat) (f : Nat) (rest : Bytes) :
    readStrBody (f + 1) (c :: rest) = (readStrBody f rest).map (fun p => (c :: p.1, p.2)) := by
  have h1 : c ≠ 92 := by intro h; subst h; simp at hc
  have h2 : c ≠ 34 := by intro h; subst h; simp at hc
  simp only [readStrBody, h2, if_false, readTok_raw c rest h1 h2 (by omega)]
  rfl

theorem readStrBody_highs (l : Bytes) (hl : ∀ c ∈ l, 128 ≤ c.toNat) (f : Nat) (rest : Bytes) :
    readStrBody (f + l.length) (l ++ rest) = (readStrBody f rest).map (fun p => (l ++ p.1, p.2)) := by
  induction l with
  | nil => cases h : readStrBody f rest <;> simp [h]
  | cons c l ih =>
    have hc := hl c List.mem_cons_self
    have ih' := ih (fun x hx => hl x (List.mem_cons_of_mem _ hx))
    rw [List.length_cons, ← Nat.add_assoc, List.cons_append, readStrBody_high c hc, ih']
    cases h : readStrBody f rest <;> simp [h]

theorem utf8Size_spec (b : UInt8) (r : Bytes) (hb : 128 ≤ b.toNat) (h0 : utf8Size (b :: r) ≠ 0) :
    2 ≤ utf8Size (b :: r) ∧ utf8Size (b :: r) ≤ r.length + 1 ∧
      ∀ c ∈ (b :: r).take (utf8Size (b :: r)), 128 ≤ c.toNat := by
  have hlt : ¬ b.toNat < 128 := by omega
  rcases r with _ | ⟨b1, _ | ⟨b2, _ | ⟨b3, r'⟩⟩⟩ <;>
    simp only [utf8Size, hlt, if_false, isCont] at h0 ⊢ <;>
    split_ifs at h0 ⊢ <;> simp_all <;> omega


theorem readStrBody_u2028 (f : Nat) (x : Bytes) :
    readStrBody (f + 1) (asc "\\u2028" ++ x) = (readStrBody f x).map (fun p => ([226, 128, 168] ++ p.1, p.2)) := rfl
theorem readStrBody_u2029 (f : Nat) (x : Bytes) :
    readStrBody (f + 1) (asc "\\u2029" ++ x) = (readStrBody f x).map (fun p => ([226, 128, 169] ++ p.1, p.2)) := rfl

theorem readStrBody_escBody : ∀ (n : Nat) (s : Bytes) (f : Nat) (t : Bytes),
    validUtf8 n s = true → s.length ≤ n → s.length + 1 ≤ f →
    readStrBody f (escBody n s ++ 34 :: t) = some (s, t) := by
  intro n
  induction n with
  | zero =>
    intro s f t _ hl hf
    have : s = [] := by cases s <;> simp_all
    subst this
    obtain ⟨f', rfl⟩ : ∃ f', f = f' + 1 := ⟨f - 1, by simp at hf; omega⟩
    simp [escBody, readStrBody]
  | succ n ih =>
    intro s f t hv hl hf
    cases s with
    | nil =>
      obtain ⟨f', rfl⟩ : ∃ f', f = f' + 1 := ⟨f - 1, by simp at hf; omega⟩
      simp [escBody, readStrBody]
    | cons b r =>
      simp only [List.length_cons] at hl hf
      by_cases hb : b.toNat < 128
      · have hsz : utf8Size (b :: r) = 1 := by simp [utf8Size, hb]
        have hv' : validUtf8 n r = true := by simpa [validUtf8, hsz] using hv
        obtain ⟨f', rfl⟩ : ∃ f', f = f' + 1 := ⟨f - 1, by omega⟩
        have e : escBody (n + 1) (b :: r) = escAscii b ++ escBody n r := by simp [escBody, hb]
        rw [e, List.append_assoc, readStrBody_escAscii b hb, ih r f' t hv' (by omega) (by omega)]
        rfl
      · have hb' : 128 ≤ b.toNat := by omega
        cases hm : utf8Size (b :: r) with
        | zero => simp [validUtf8, hm] at hv
        | succ m =>
          have h0 : utf8Size (b :: r) ≠ 0 := by rw [hm]; simp
          obtain ⟨h2, hle, hall⟩ := utf8Size_spec b r hb' h0
          rw [hm] at h2 hle hall
          have hv' : validUtf8 n (r.drop m) = true := by simpa [validUtf8, hm] using hv
          have hsplit : b :: r = (b :: r).take (m + 1) ++ r.drop m := by
            rw [← List.take_append_drop (m + 1) (b :: r)]; simp
          have hlen : ((b :: r).take (m + 1)).length = m + 1 := by simp; omega
          have hrest : (r.drop m).length + m = r.length := by simp; omega
          have e : escBody (n + 1) (b :: r) =
              if (b :: r).take (m + 1) = [226, 128, 168] then asc "\\u2028" ++ escBody n (r.drop m)
              else if (b :: r).take (m + 1) = [226, 128, 169] then asc "\\u2029" ++ escBody n (r.drop m)
              else (b :: r).take (m + 1) ++ escBody n (r.drop m) := by
            simp [escBody, hb, hm]
          rw [e]
          have ihr := fun f' (hf' : (r.drop m).length + 1 ≤ f') => ih (r.drop m) f' t hv' (by omega) hf'
          split
          · rename_i hch
            obtain ⟨f', rfl⟩ : ∃ f', f = f' + 1 := ⟨f - 1, by omega⟩
            rw [List.append_assoc, readStrBody_u2028, ihr f' (by omega)]
            conv_rhs => rw [hsplit, hch]
            rfl
          · split
            · rename_i _ hch
              obtain ⟨f', rfl⟩ : ∃ f', f = f' + 1 := ⟨f - 1, by omega⟩
              rw [List.append_assoc, readStrBody_u2029, ihr f' (by omega)]
              conv_rhs => rw [hsplit, hch]
              rfl
            · obtain ⟨f', rfl⟩ : ∃ f', f = f' + ((b :: r).take (m + 1)).length := ⟨f - (m + 1), by rw [hlen]; omega⟩
              rw [List.append_assoc, readStrBody_highs _ hall, ihr f' (by rw [hlen] at hf; omega)]
              conv_rhs => rw [hsplit]
              rfl

theorem escAscii_length_pos (b : UInt8) : 1 ≤ (escAscii b).length := by
  have e1 : (asc "\\b").length = 2 := by decide
  have e2 : (asc "\\f").length = 2 := by decide
  have e3 : (asc "\\n").length = 2 := by decide
  have e4 : (asc "\\r").length = 2 := by decide
  have e5 : (asc "\\t").length = 2 := by decide
  simp only [escAscii]
  split_ifs <;> simp [e1, e2, e3, e4, e5]

theorem escBody_length_ge : ∀ (n : Nat) (s : Bytes), s.length ≤ n → s.length ≤ (escBody n s).length := by
  intro n
  induction n with
  | zero => intro s hl; cases s <;> simp_all
  | succ n ih =>
    intro s hl
    cases s with
    | nil => simp
    | cons b r =>
      simp only [List.length_cons] at hl
      by_cases hb : b.toNat < 128
      · have e : escBody (n + 1) (b :: r) = escAscii b ++ escBody n r := by simp [escBody, hb]
        have := escAscii_length_pos b
        have := ih r (by omega)
        rw [e]; simp; omega
      · cases hm : utf8Size (b :: r) with
        | zero =>
          have e : escBody (n + 1) (b :: r) = asc "\\ufffd" ++ escBody n r := by simp [escBody, hb, hm]
          have := ih r (by omega)
          have h6 : (asc "\\ufffd").length = 6 := by decide
          rw [e]; simp [h6]; omega
        | succ m =>
          have hb' : 128 ≤ b.toNat := by omega
          have h0 : utf8Size (b :: r) ≠ 0 := by rw [hm]; simp
          obtain ⟨h2, hle, _⟩ := utf8Size_spec b r hb' h0
          rw [hm] at h2 hle
          have e : escBody (n + 1) (b :: r) =
              if (b :: r).take (m + 1) = [226, 128, 168] then asc "\\u2028" ++ escBody n (r.drop m)
              else if (b :: r).take (m + 1) = [226, 128, 169] then asc "\\u2029" ++ escBody n (r.drop m)
              else (b :: r).take (m + 1) ++ escBody n (r.drop m) := by
            simp [escBody, hb, hm]
          have := ih (r.drop m) (by simp; omega)
          have h6 : (asc "\\u2028").length = 6 := by decide
          have h6' : (asc "\\u2029").length = 6 := by decide
          have hd : (r.drop m).length = r.length - m := by simp
          rw [e]
          split
          · rename_i hch
            have : m + 1 = 3 := by have := congrArg List.length hch; simp at this; omega
            simp [h6]; omega
          · split
            · rename_i _ hch
              have : m + 1 = 3 := by have := congrArg List.length hch; simp at this; omega
              simp [h6']; omega
            · simp; omega

/-- strings that survive encoding/json: valid UTF-8 -/
def Utf8Ok (s : Bytes) : Prop := validUtf8 s.length s = true

/-- reading a rendered string back -/
theorem readStr_jstr (s t : Bytes) (hv : Utf8Ok s) : readStr (jstr s ++ t) = some (s, t) := by
  have hl := escBody_length_ge s.length s (Nat.le_refl _)
  have e : jstr s ++ t = 34 :: (escBody s.length s ++ 34 :: t) := by simp [jstr]
  rw [e]
  simp only [readStr]
  exact readStrBody_escBody s.length s _ t hv (Nat.le_refl _) (by simp; omega)

end MW.KsCodecL
