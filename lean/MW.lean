import MW.Audit.C15
import MW.Base.Bytes
import MW.Base.Dec
import MW.Drv.Amt
import MW.Gen.Amount
import MW.Model.Amount
import MW.Props.C15
import MW.Spec.Amount
