import MW.Drv.Amt
import MW.Drv.Bip39
open MW
structure DSt where
  sAmt : Drv.Amt.St := Drv.Amt.init
  sBip39 : Drv.Bip39.St := Drv.Bip39.init

def dstep (st : DSt) (line : String) : DSt × String :=
  match (line.trimAscii.toString.splitOn " ").filter (· ≠ "") with
  | "amt" :: args => let (s, o) := Drv.Amt.step st.sAmt args; ({ st with sAmt := s }, o)
  | "bip39" :: args => let (s, o) := Drv.Bip39.step st.sBip39 args; ({ st with sBip39 := s }, o)
  | ["reset"] => ({}, "ok")
  | _ => (st, "bad-engine")

partial def loop (hin hout : IO.FS.Stream) (st : DSt) : IO Unit := do
  let line ← hin.getLine
  if line.isEmpty then return ()
  let (st', o) := dstep st line
  hout.putStrLn o
  loop hin hout st'

def main : IO Unit := do
  let hin ← IO.getStdin
  let hout ← IO.getStdout
  loop hin hout {}
  hout.flush
