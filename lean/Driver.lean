import MW.Drv.Amt
import MW.Drv.Kv
open MW
structure DSt where
  sAmt : Drv.Amt.St := Drv.Amt.init
  sKv : Drv.Kv.St := Drv.Kv.init

def dstep (st : DSt) (line : String) : DSt × String :=
  match (line.trimAscii.toString.splitOn " ").filter (· ≠ "") with
  | "amt" :: args => let (s, o) := Drv.Amt.step st.sAmt args; ({ st with sAmt := s }, o)
  | "kv" :: args => let (s, o) := Drv.Kv.step st.sKv args; ({ st with sKv := s }, o)
  | ["reset"] => ({}, "ok")
  | _ => (st, "bad-engine")

partial def loop (hin hout : IO.FS.Stream) (st : DSt) : IO Unit := do
  let line ← hin.getLine
  if line.isEmpty then return ()
  let (st', o) := dstep st line
  hout.putStrLn o
  loop hin hout st'

def main : IO Unit := do
  let hin ← IO.getStdin
  let hout ← IO.getStdout
  loop hin hout {}
  hout.flush
