import MW.Drv.Amt
import MW.Drv.Bip32
open MW
structure DSt where
  sAmt : Drv.Amt.St := Drv.Amt.init
  sBip32 : Drv.Bip32.St := Drv.Bip32.init

def dstep (st : DSt) (line : String) : DSt × String :=
  match (line.trimAscii.toString.splitOn " ").filter (· ≠ "") with
  | "amt" :: args => let (s, o) := Drv.Amt.step st.sAmt args; ({ st with sAmt := s }, o)
  | "bip32" :: args => let (s, o) := Drv.Bip32.step st.sBip32 args; ({ st with sBip32 := s }, o)
  | ["reset"] => ({}, "ok")
  | _ => (st, "bad-engine")

partial def loop (hin hout : IO.FS.Stream) (st : DSt) : IO Unit := do
  let line ← hin.getLine
  if line.isEmpty then return ()
  let (st', o) := dstep st line
  hout.putStrLn o
  loop hin hout st'

def main : IO Unit := do
  let hin ← IO.getStdin
  let hout ← IO.getStdout
  loop hin hout {}
  hout.flush
