#!/bin/sh
# Build the framework from files on disk only (offline).
set -e
cd "$(dirname "$0")"
export GOFLAGS=-mod=mod GOPROXY=off GOSUMDB=off GOTOOLCHAIN=local
mkdir -p /dev/shm/verif.setup evidence replays
(cd go && go build -tags verif -o /dev/shm/verif.setup/extract ./cmd/extract && /dev/shm/verif.setup/extract -repo /repo -out ../lean/MW/Gen -report /dev/shm/verif.setup/extract.json)
python3 tools/gen_driver.py
(cd lean && lake build)
(cd go && go build -tags verif -o /dev/shm/verif.setup/harness ./cmd/harness)
rm -rf /dev/shm/verif.setup
